/* Contracts of the static helpers of lib/crypt.c, stub side (what callers
   are verified against).  Enforcement side: harness/crypt_units.c.

   check_badsalt_chars (setting)
     requires: setting is a NUL-terminated string
     assigns:  nothing
     ensures:  result == 0  ==>  every byte of setting is acceptable
                                 (instantiated at the harness's arbitrary index g_bk)
               result != 0  ==>  some byte of setting is unacceptable
                                 (witness; enforced, hence assumed, for strlen < 512)
   get_hashfn (setting)
     requires: setting is a NUL-terminated string
     assigns:  nothing
     ensures:  result == NULL  <==>  no enabled method's prefix matches (spec/prefix.h)
               result != NULL  ==>  result is an element of hash_algorithms whose
                                    crypt entry point is the selected method's
   get_internal: contracts/get_internal_stub.c  */
#ifndef XV_C_CRYPT_C_STUBS_H
#define XV_C_CRYPT_C_STUBS_H 1
#include "spec/prefix.h"

extern size_t g_bk;

/* which method a table entry dispatches to, by its crypt entry point */
static int xv_entry_method (const struct hashfn *h)
{
#if INCLUDE_sha1crypt
  if (h->crypt == crypt_sha1crypt_rn) return M_SHA1CRYPT;
#endif
#if INCLUDE_bcrypt_a
  if (h->crypt == crypt_bcrypt_a_rn) return M_BCRYPT_A;
#endif
#if INCLUDE_bcrypt
  if (h->crypt == crypt_bcrypt_rn) return M_BCRYPT_B;
#endif
#if INCLUDE_bcrypt_x
  if (h->crypt == crypt_bcrypt_x_rn) return M_BCRYPT_X;
#endif
#if INCLUDE_bcrypt_y
  if (h->crypt == crypt_bcrypt_y_rn) return M_BCRYPT_Y;
#endif
#if INCLUDE_gost_yescrypt
  if (h->crypt == crypt_gost_yescrypt_rn) return M_GOST_YESCRYPT;
#endif
#if INCLUDE_sunmd5
  if (h->crypt == crypt_sunmd5_rn) return M_SUNMD5;
#endif
#if INCLUDE_md5crypt
  if (h->crypt == crypt_md5crypt_rn) return M_MD5CRYPT;
#endif
#if INCLUDE_nt
  if (h->crypt == crypt_nt_rn) return M_NT;
#endif
#if INCLUDE_sha256crypt
  if (h->crypt == crypt_sha256crypt_rn) return M_SHA256CRYPT;
#endif
#if INCLUDE_sha512crypt
  if (h->crypt == crypt_sha512crypt_rn) return M_SHA512CRYPT;
#endif
#if INCLUDE_scrypt
  if (h->crypt == crypt_scrypt_rn) return M_SCRYPT;
#endif
#if INCLUDE_yescrypt
  if (h->crypt == crypt_yescrypt_rn) return M_YESCRYPT;
#endif
#if INCLUDE_bsdicrypt
  if (h->crypt == crypt_bsdicrypt_rn) return M_BSDICRYPT;
#endif
#if INCLUDE_bigcrypt
  if (h->crypt == crypt_bigcrypt_rn) return M_BIGCRYPT;
#endif
#if INCLUDE_descrypt
  if (h->crypt == crypt_descrypt_rn) return M_DESCRYPT;
#endif
  return -1;
}

#define XV_NTABLE (ARRAY_SIZE (hash_algorithms) - 1)

#ifndef XV_NATIVE
int check_badsalt_chars_stub (const char *setting)
{
  size_t len = 0;
  _Bool reg = xv_str_lookup (setting, &len);
  XV_STUBPRE ("C04", reg, "check_badsalt_chars: argument is a caller string");
  _Bool bad = nondet_bool ();
  if (!bad)
    __CPROVER_assume (g_bk >= len || xv_passwd_safe ((unsigned char) setting[g_bk]));
  else if (len < 512)
    {
      size_t k = nondet_size ();
      __CPROVER_assume (k < len && !xv_passwd_safe ((unsigned char) setting[k]));
    }
  return bad;
}

const struct hashfn *get_hashfn_stub (const char *setting)
{
  /* a caller string (length from the ghost registry) or a short literal
     such as HASH_ALGORITHM_DEFAULT (scanned by the strlen model) */
  size_t len = strlen (setting);
  int want = spec_method_of_prefix ((const unsigned char *) setting, len);
  if (want < 0)
    return 0;
#ifdef XV_TABLE_INDEX
  /* one case of the job's exhaustive split over the table entries: with a
     constant entry the indirect call in do_crypt has a single target */
  size_t i = XV_TABLE_INDEX;
#else
  size_t i = nondet_size ();
#endif
  __CPROVER_assume (i < XV_NTABLE);
  __CPROVER_assume (xv_entry_method (&hash_algorithms[i]) == want);
  return &hash_algorithms[i];
}
#endif
#endif

/* Contracts of the DES primitives (lib/alg-des.c), stub side.  Enforcement:
   jobs des_set_key, des_set_salt, des_crypt_block (harness/des.c, against
   FIPS 46-3).
     des_set_key (ctx, key)     requires w_ok (ctx), r_ok (key, 8)
                                assigns  ctx->keysl, ctx->keysr
                                ensures  24-bit round-key halves; key schedule of `key`
     des_set_salt (ctx, salt)   requires w_ok (ctx)
                                assigns  ctx->saltbits (24 bits)
     des_crypt_block (ctx, out, in, count, decrypt)
                                requires key and salt were set in ctx (typestate),
                                         r_ok (in, 8), w_ok (out, 8)
                                assigns  out[0..8)
   Ghost: the last key, salt and count, so a method's harness can state which
   key material reached the cipher (C03) and with which cost (C01, C11).  */
#ifndef XV_C_DES_STUBS_H
#define XV_C_DES_STUBS_H 1
#include "xv.h"
#include "alg-des.h"
#ifndef XV_NATIVE
const void *xv_des_ctx; int xv_des_key_set, xv_des_salt_set;
unsigned char xv_des_first_key[8], xv_des_last_key[8]; unsigned xv_des_keys;
uint32_t xv_des_last_salt; unsigned xv_des_last_count; unsigned xv_des_blocks;
unsigned char xv_des_last_in[8], xv_des_last_out[8]; int xv_des_last_decrypt;

void des_set_key (struct des_ctx *restrict ctx, const unsigned char key[8])
{
  XV_STUBPRE ("C04", XV_W_OK (ctx, sizeof *ctx) && XV_R_OK (key, 8), "des_set_key: context writable, 8 key bytes readable");
  for (int i = 0; i < 16; i++)   /* XV_UNWIND 16 */
    {
      ctx->keysl[i] = nondet_u32 () & 0xffffff;
      ctx->keysr[i] = nondet_u32 () & 0xffffff;
    }
  for (int i = 0; i < 8; i++)   /* XV_UNWIND 8 */
    {
      if (xv_des_keys == 0) xv_des_first_key[i] = key[i];
      xv_des_last_key[i] = key[i];
    }
  if (xv_des_keys < 1000) xv_des_keys++;
  xv_des_ctx = ctx; xv_des_key_set = 1;
}

void des_set_salt (struct des_ctx *restrict ctx, uint32_t salt)
{
  XV_STUBPRE ("C04", XV_W_OK (ctx, sizeof *ctx), "des_set_salt: context writable");
  ctx->saltbits = nondet_u32 () & 0xffffff;
  xv_des_last_salt = salt; xv_des_salt_set = 1; xv_des_ctx = ctx;
}

void des_crypt_block (struct des_ctx *restrict ctx, unsigned char *out, const unsigned char *in,
                      unsigned int count, bool decrypt)
{
  XV_STUBPRE ("C04,C07", ctx == xv_des_ctx && xv_des_key_set && xv_des_salt_set,
              "des_crypt_block: key and salt were set in this context");
  XV_STUBPRE ("C04", XV_R_OK (in, 8) && XV_W_OK (out, 8), "des_crypt_block: 8 readable input bytes, 8 writable output bytes");
  for (int i = 0; i < 8; i++)   /* XV_UNWIND 8 */
    xv_des_last_in[i] = in[i];
  XV_HAVOC_SLICE (out, 8);
  for (int i = 0; i < 8; i++)   /* XV_UNWIND 8 */
    xv_des_last_out[i] = out[i];
  xv_des_last_decrypt = decrypt;
  xv_des_last_count = count;
  if (xv_des_blocks < 1000) xv_des_blocks++;
  (void) decrypt;
}
#endif
#endif

/* Contracts of the digest primitives, stub side: what the hashing methods
   are verified against.  The enforcement side (real MD5/SHA/... bodies
   against these clauses) is harness/digest_*.c (C16, C09).

   Common shape, for a digest D with context type D_CTX and output size N:
     D_Init (ctx)            requires w_ok (ctx)
                             ensures  state(ctx) == READY
     D_Update (ctx, p, n)    requires state(ctx) == READY, r_ok (p, n)
                             ensures  state(ctx) == READY
     D_Final (out, ctx)      requires state(ctx) == READY, w_ok (out, N)
                             assigns  out[0..N), *ctx
                             ensures  out is the digest (arbitrary value here),
                                      *ctx is all zero, state(ctx) == RAW
   The typestate (one ghost variable per digest: the methods use a single
   context at a time, identified by address) carries C07's
   initialise-before-use obligation; the ghost copy of the last digest lets
   a method's harness state "the encoded characters are the published
   permutation of the final digest" (C02 encoding layer, C06).

   Information flow (C03): every Update whose data pointer lies in the
   caller's phrase must pass the whole phrase (or be one of the method's
   documented exceptions, enabled by XV_PHRASE_PREFIX_OK); the ghost
   counter xv_phrase_absorbed counts such whole-phrase updates.  */
#ifndef XV_C_DIGEST_STUBS_H
#define XV_C_DIGEST_STUBS_H 1
#include "xv.h"

#ifndef XV_NATIVE
/* set by the method harness */
const unsigned char *xv_phrase_p; size_t xv_phrase_n;
unsigned xv_phrase_absorbed;

/* C01/C03: which bytes of the *setting* may reach a digest: exactly the span
   the method's documentation says is the salt (set by the method harness
   from its specification-side parse, before the call).  */
const unsigned char *xv_setting_p; size_t xv_salt_off, xv_salt_n; _Bool xv_salt_span_set;
unsigned xv_salt_absorbed;

static void xv_setting_flow (const void *data, size_t n)
{
  if (xv_salt_span_set && xv_setting_p != NULL && XV_SAME_OBJ (data, xv_setting_p))
    {
      XV_STUBPRE ("C01,C03", (const unsigned char *) data == xv_setting_p + xv_salt_off && n == xv_salt_n,
                  "a digest update reading from the setting passes exactly the documented salt span (the same characters the output reproduces)");
      if (xv_salt_absorbed < 1000000) xv_salt_absorbed++;
    }
}

static void xv_phrase_flow (const void *data, size_t n)
{
  if (xv_phrase_p != NULL && XV_SAME_OBJ (data, xv_phrase_p))
    {
      if ((const unsigned char *) data == xv_phrase_p && n == xv_phrase_n)
        { if (xv_phrase_absorbed < 1000000) xv_phrase_absorbed++; }
      else
        {
#ifdef XV_PHRASE_PREFIX_OK
          /* documented exception: the method feeds the first XV_PHRASE_PREFIX_OK byte(s) */
          XV_STUBPRE ("C03", (const unsigned char *) data == xv_phrase_p && n <= XV_PHRASE_PREFIX_OK,
                      "a digest update reading from the phrase passes the whole phrase (or the documented leading byte)");
#else
          XV_STUBPRE ("C03", 0, "a digest update reading from the phrase passes the whole phrase");
#endif
        }
    }
}

/* loop-free byte copies (a loop or a memcpy model with a loop inside a stub
   would need its own contract when the stub is called from a contracted loop) */
#define XV_COPY4(d, s, o) (d)[(o)] = (s)[(o)]; (d)[(o) + 1] = (s)[(o) + 1]; (d)[(o) + 2] = (s)[(o) + 2]; (d)[(o) + 3] = (s)[(o) + 3]
#define XV_COPY16_AT(d, s, o) XV_COPY4 (d, s, o); XV_COPY4 (d, s, (o) + 4); XV_COPY4 (d, s, (o) + 8); XV_COPY4 (d, s, (o) + 12)
#define XV_COPY16(d, s) XV_COPY16_AT (d, s, 0)
#define XV_COPY32(d, s) XV_COPY16_AT (d, s, 0); XV_COPY16_AT (d, s, 16)
#define XV_COPY64(d, s) XV_COPY16_AT (d, s, 0); XV_COPY16_AT (d, s, 16); XV_COPY16_AT (d, s, 32); XV_COPY16_AT (d, s, 48)

#define XV_DIGEST_STUB(D, CTX_T, N, INIT, UPDATE, FINAL, UPD_LEN_T)                              \
  int xv_##D##_state;            /* 0 RAW, 1 READY */                                            \
  const void *xv_##D##_ctx;                                                                      \
  unsigned char xv_##D##_last[N];  /* ghost copy of the most recent digest */                    \
  unsigned xv_##D##_finals;                                                                      \
  size_t xv_##D##_upd_n;   /* ghost: length of the most recent update */                         \
  void INIT (CTX_T *ctx)                                                                         \
  {                                                                                              \
    XV_STUBPRE ("C04", XV_W_OK (ctx, sizeof *ctx), #INIT ": context is writable");               \
    xv_##D##_ctx = ctx; xv_##D##_state = 1;                                                      \
  }                                                                                              \
  void UPDATE (CTX_T *ctx, const void *data, UPD_LEN_T n)                                        \
  {                                                                                              \
    XV_STUBPRE ("C04,C07", ctx == xv_##D##_ctx && xv_##D##_state == 1,                           \
                #UPDATE ": context was initialised and not yet finalised");                      \
    XV_STUBPRE ("C04", n == 0 || XV_R_OK (data, n), #UPDATE ": data has n readable bytes");      \
    xv_phrase_flow (data, n);                                                                    \
    xv_setting_flow (data, n);                                                                   \
    xv_##D##_upd_n = n;                                                                          \
  }                                                                                              \
  void FINAL (uint8_t *out, CTX_T *ctx)                                                          \
  {                                                                                              \
    XV_STUBPRE ("C04,C07", ctx == xv_##D##_ctx && xv_##D##_state == 1,                           \
                #FINAL ": context was initialised and not yet finalised");                       \
    XV_STUBPRE ("C04", XV_W_OK (out, N), #FINAL ": result buffer holds the digest");             \
    /* loop-free (a loop here would need its own contract inside the callers'                  \
       contracted loops): arbitrary digest value, remembered in the ghost copy */                 \
    XV_HAVOC_SLICE (out, N);                                                                     \
    XV_COPY##N (xv_##D##_last, out);      /* loop-free ghost copy, see XV_COPY16 */              \
    xv_##D##_state = 0; xv_##D##_finals++;                                                       \
  }
#endif
#endif

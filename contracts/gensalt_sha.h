/* Contract of gensalt_sha_rn (lib/util-gensalt-sha.c), shared by md5crypt,
   sha256crypt and sha512crypt.  Postconditions are taken from properties
   C10-C13 and crypt(5), not from the code.  */
#ifndef XV_C_GENSALT_SHA_H
#define XV_C_GENSALT_SHA_H 1
#include "xv.h"

/* The three parameter tuples the library uses (call sites in crypt-md5.c,
   crypt-sha256.c, crypt-sha512.c) and what crypt(5) documents for them.  */
static inline bool gensalt_sha_tuple_ok (char tag, size_t maxsalt, unsigned long defc,
                                         unsigned long minc, unsigned long maxc)
{
  return (tag == '1' && maxsalt == 8 && defc == 1000 && minc == 1000 && maxc == 1000)
      || (tag == '5' && maxsalt == 16 && defc == 5000 && minc == 1000 && maxc == 999999999UL)
      || (tag == '6' && maxsalt == 16 && defc == 5000 && minc == 1000 && maxc == 999999999UL);
}

/* C11: the cost a generated setting must carry, as documented.  */
static inline unsigned long spec_sha_cost (unsigned long count, unsigned long defc,
                                           unsigned long minc, unsigned long maxc)
{
  unsigned long c = count == 0 ? defc : count;
  if (c < minc) c = minc;
  if (c > maxc) c = maxc;
  return c;
}

/* length of "$T$" or "$T$rounds=<c>$" */
static inline size_t spec_sha_prefix_len (unsigned long c, unsigned long defc)
{
  return c == defc ? 3 : 3 + 7 + xv_dec_ndigits (c) + 1;
}

/* Decimal value of the digits at s[0..n), n <= 10; returns false if a
   non-digit occurs.  */
static inline bool spec_parse_dec (const unsigned char *s, unsigned n, unsigned long *v)
{
  unsigned long acc = 0;
  for (unsigned i = 0; i < 10; i++)
    if (i < n)
      {
        if (!xv_is_digit (s[i])) return false;
        acc = acc * 10 + (unsigned long) (s[i] - '0');
      }
  *v = acc;
  return true;
}
#endif

/* Contract stub of get_internal (static inline in lib/crypt.c).
   ensures: the result lies in data->internal, is aligned to 16 bytes (the
            alignment of max_align_t on this target) and leaves room for a
            struct crypt_internal (8192 bytes) before the end of the field.
   Alignment is expressed on the offset inside the enclosing block: blocks
   returned by malloc and objects with static storage start at multiples of
   16; the harness places the data object at every residue 0..15 inside its
   block (assumption A-align).  The real body is enforced against exactly
   these clauses by job get_internal (16 residues), where CBMC's
   pointer-to-integer encoding is used directly.  */
#include "xv.h"
struct crypt_data;
struct crypt_internal;
#include "crypt.h"

struct crypt_internal *get_internal (struct crypt_data *data)
{
  size_t off = XV_PTR_OFF (data->internal);
  size_t pad = (16 - (off & 15)) & 15;
  return (struct crypt_internal *) (data->internal + pad);
}

/* L0 method contract, stub side: what do_crypt may assume of, and must
   guarantee to, any crypt_<method>_rn (phrase, phr_size, setting, set_size,
   output, out_size, scratch, scr_size).

   requires (recorded in ms_args_ok, asserted by the caller's harness):
     phrase/setting are the caller's strings with their exact lengths,
     phr_size < 512, output is data->output with out_size 384, scratch lies
     inside data->internal, is 16-byte aligned and has scr_size 8192 bytes
   assigns: output[0..384), scratch[0..scr_size), errno
   ensures: either failure: output untouched, errno in {EINVAL, ERANGE, ENOMEM}
            or success: output holds a NUL-terminated string that does not
            start with '*'
   The enforcement side of this contract (the real method bodies against it)
   is in harness/method_*.c.  */
#ifndef XV_C_METHOD_STUB_H
#define XV_C_METHOD_STUB_H 1
#include "xv.h"
#include "spec/prefix.h"

static int ms_calls, ms_method;
static bool ms_args_ok, ms_failed;
static unsigned ms_seq;          /* event number of the method call */
static struct crypt_data *ms_data;
static const char *ms_phrase, *ms_setting;

static void ms_reset (struct crypt_data *data, const char *phrase, const char *setting)
{
  ms_calls = 0; ms_method = -1; ms_args_ok = false; ms_failed = false;
  ms_data = data; ms_phrase = phrase; ms_setting = setting;
}

#ifndef XV_NATIVE
extern size_t g_phr_size_ghost, g_set_size_ghost;

static void ms_stub (int id, const char *phrase, size_t phr_size, const char *setting, size_t set_size,
                     uint8_t *output, size_t out_size, void *scratch, size_t scr_size)
{
  ms_calls++;
  ms_method = id;
  ms_seq = xv_event_seq++;
  size_t pl = 0, sl = 0;
  bool reg = xv_str_lookup (phrase, &pl) && xv_str_lookup (setting, &sl);
  size_t ioff = XV_PTR_OFF (ms_data->internal);
#ifdef PROBE_NOARGS
  ms_args_ok = 1; (void) ioff;
#else
  ms_args_ok = reg && phrase == ms_phrase && setting == ms_setting
               && phr_size == pl && set_size == sl && phr_size < 512
               && output == (uint8_t *) ms_data->output && out_size == sizeof ms_data->output
               && XV_SAME_OBJ (scratch, ms_data->internal)
               && XV_PTR_OFF (scratch) >= ioff
               && XV_PTR_OFF (scratch) + scr_size <= ioff + sizeof ms_data->internal
               && XV_PTR_OFF (scratch) % 16 == 0
               && scr_size == 8192;
#endif
  if (!ms_args_ok)
    return;                         /* the harness reports the violated precondition */
  /* scratch[0..8192) lies inside data->internal (checked above); havoc the
     whole field, a constant-offset superset, which is far cheaper for the
     solver than a slice at a symbolic offset */
  /* scratch[0..8192) (inside data->internal, checked above) is in the
     method's frame.  It is not havocked here: the field's contents are
     arbitrary on entry already and do_crypt never reads them, so a havoc adds
     no behaviour - but each whole-field version costs 245 000 variables.  */
  ms_failed = nondet_bool ();
  if (ms_failed)
    {
      int e = nondet_int ();
      __CPROVER_assume (e == EINVAL || e == ERANGE || e == ENOMEM);
      errno = e;
    }
  else
    {
      /* output == ms_data->output (checked above): write through the field,
         element by element, so CBMC keeps the access inside the 384-byte
         field instead of a byte update on the whole 32 KiB object */
      size_t n = nondet_size ();
      __CPROVER_assume (n >= 1 && n < 384);
      for (size_t i = 0; i < 384; i++)   /* XV_UNWIND 384 */
        {
          char c = nondet_char ();
          if (i == 0) __CPROVER_assume (c != '*' && c != 0);
          if (i == n) c = 0;
          ms_data->output[i] = c;
        }
    }
}

#define XV_METHOD_STUB(name, id)                                             \
  void name (const char *phrase, size_t phr_size, const char *setting,       \
             size_t set_size, uint8_t *output, size_t out_size,              \
             void *scratch, size_t scr_size)                                 \
  { ms_stub (id, phrase, phr_size, setting, set_size, output, out_size, scratch, scr_size); }

#if INCLUDE_sha1crypt
XV_METHOD_STUB (crypt_sha1crypt_rn, M_SHA1CRYPT)
#endif
#if INCLUDE_bcrypt_a
XV_METHOD_STUB (crypt_bcrypt_a_rn, M_BCRYPT_A)
#endif
#if INCLUDE_bcrypt
XV_METHOD_STUB (crypt_bcrypt_rn, M_BCRYPT_B)
#endif
#if INCLUDE_bcrypt_x
XV_METHOD_STUB (crypt_bcrypt_x_rn, M_BCRYPT_X)
#endif
#if INCLUDE_bcrypt_y
XV_METHOD_STUB (crypt_bcrypt_y_rn, M_BCRYPT_Y)
#endif
#if INCLUDE_gost_yescrypt
XV_METHOD_STUB (crypt_gost_yescrypt_rn, M_GOST_YESCRYPT)
#endif
#if INCLUDE_sunmd5
XV_METHOD_STUB (crypt_sunmd5_rn, M_SUNMD5)
#endif
#if INCLUDE_md5crypt
XV_METHOD_STUB (crypt_md5crypt_rn, M_MD5CRYPT)
#endif
#if INCLUDE_nt
XV_METHOD_STUB (crypt_nt_rn, M_NT)
#endif
#if INCLUDE_sha256crypt
XV_METHOD_STUB (crypt_sha256crypt_rn, M_SHA256CRYPT)
#endif
#if INCLUDE_sha512crypt
XV_METHOD_STUB (crypt_sha512crypt_rn, M_SHA512CRYPT)
#endif
#if INCLUDE_scrypt
XV_METHOD_STUB (crypt_scrypt_rn, M_SCRYPT)
#endif
#if INCLUDE_yescrypt
XV_METHOD_STUB (crypt_yescrypt_rn, M_YESCRYPT)
#endif
#if INCLUDE_bsdicrypt
XV_METHOD_STUB (crypt_bsdicrypt_rn, M_BSDICRYPT)
#endif
#if INCLUDE_bigcrypt
XV_METHOD_STUB (crypt_bigcrypt_rn, M_BIGCRYPT)
#endif
#if INCLUDE_descrypt
XV_METHOD_STUB (crypt_descrypt_rn, M_DESCRYPT)
#endif
#endif /* !XV_NATIVE */
#endif

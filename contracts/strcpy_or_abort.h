/* Contract of strcpy_or_abort (lib/util-xstrcpy.c).
   requires: dst != NULL, src != NULL and NUL-terminated,
             d_size >= strlen (src) + 1, dst has d_size writable bytes
             (each requirement is an assert() in the real function: a caller
             violating one aborts the process)
   assigns:  dst[0 .. d_size)
   ensures:  returns strlen (src); dst[0 .. len) == src[0 .. len);
             dst[len .. d_size) == 0
   The stub below is what callers are verified against; the real body is
   enforced against the same clauses by job leaf_strcpy_or_abort.
   XV_STRCPY_MAX bounds the destination size the stub can write (callers in
   the library pass at most CRYPT_OUTPUT_SIZE = 384).  */
#ifndef XV_C_STRCPY_OR_ABORT_H
#define XV_C_STRCPY_OR_ABORT_H 1
#include "xv.h"
#ifndef XV_STRCPY_MAX
#define XV_STRCPY_MAX 384
#endif

#if defined STUB_STRCPY_OR_ABORT && !defined XV_NATIVE
size_t strcpy_or_abort (void *dst, size_t d_size, const void *src)
{
  XV_STUBPRE ("C04,C13", dst != NULL && src != NULL, "strcpy_or_abort: non-null arguments (the real function asserts)");
  size_t len = strlen ((const char *) src);
  XV_STUBPRE ("C04,C13", d_size >= len + 1, "strcpy_or_abort: destination holds the string and its NUL (the real function asserts)");
  XV_STUBPRE ("C04,C13", d_size <= XV_STRCPY_MAX && XV_W_OK (dst, d_size), "strcpy_or_abort: destination has d_size writable bytes");
  __CPROVER_assume (dst != NULL && src != NULL && d_size >= len + 1 && d_size <= XV_STRCPY_MAX);
  unsigned char *d = dst;
  const unsigned char *s = src;
  for (size_t i = 0; i < XV_STRCPY_MAX; i++)   /* XV_UNWIND STRCPY */
    if (i < d_size)
      d[i] = i < len ? s[i] : 0;
  return len;
}
#endif
#endif

/* C20: layout of struct crypt_data and the public constants of the freshly
   generated <crypt.h> against the values of the released libcrypt.so.1
   (crypt(3), crypt_checksalt(3); pinned in this file).  */
#include <stddef.h>
#include "xv.h"
#include "crypt.h"

void harness (void)
{
  XV_ASSERT ("C20", sizeof (struct crypt_data) == 32768, "struct crypt_data is 32768 bytes");
  XV_ASSERT ("C20", offsetof (struct crypt_data, output) == 0, "output at offset 0");
  XV_ASSERT ("C20", offsetof (struct crypt_data, setting) == 384, "setting at offset 384");
  XV_ASSERT ("C20", offsetof (struct crypt_data, input) == 768, "input at offset 768");
  XV_ASSERT ("C20", offsetof (struct crypt_data, reserved) == 1280, "reserved at offset 1280");
  XV_ASSERT ("C20", offsetof (struct crypt_data, initialized) == 2047, "initialized at offset 2047");
  XV_ASSERT ("C20", offsetof (struct crypt_data, internal) == 2048, "internal at offset 2048");
  XV_ASSERT ("C20", sizeof (((struct crypt_data *) 0)->output) == 384 && sizeof (((struct crypt_data *) 0)->setting) == 384
             && sizeof (((struct crypt_data *) 0)->input) == 512 && sizeof (((struct crypt_data *) 0)->reserved) == 767
             && sizeof (((struct crypt_data *) 0)->initialized) == 1 && sizeof (((struct crypt_data *) 0)->internal) == 30720,
             "field sizes 384 / 384 / 512 / 767 / 1 / 30720");
  XV_ASSERT ("C20", CRYPT_OUTPUT_SIZE == 384 && CRYPT_MAX_PASSPHRASE_SIZE == 512 && CRYPT_GENSALT_OUTPUT_SIZE == 192
             && CRYPT_DATA_RESERVED_SIZE == 767 && CRYPT_DATA_INTERNAL_SIZE == 30720,
             "size macros 384 / 512 / 192 / 767 / 30720");
  XV_ASSERT ("C20", CRYPT_SALT_OK == 0 && CRYPT_SALT_INVALID == 1 && CRYPT_SALT_METHOD_DISABLED == 2
             && CRYPT_SALT_METHOD_LEGACY == 3 && CRYPT_SALT_TOO_CHEAP == 4,
             "crypt_checksalt status constants 0..4");
  XV_ASSERT ("C20", CRYPT_GENSALT_IMPLEMENTS_DEFAULT_PREFIX == 1 && CRYPT_GENSALT_IMPLEMENTS_AUTO_ENTROPY == 1
             && CRYPT_CHECKSALT_AVAILABLE == 1 && CRYPT_PREFERRED_METHOD_AVAILABLE == 1,
             "feature-test macros of the released header");
  XV_CANARY ("abi");
}

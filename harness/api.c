/* Enforcement of the contracts of the public entry points of lib/crypt.c:
   crypt_rn, crypt_r, crypt_ra, crypt_gensalt_rn, crypt_gensalt_ra,
   crypt_checksalt, crypt_preferred_method (the real bodies, crypt.c being
   included as text).  do_crypt, get_hashfn, check_badsalt_chars and the
   per-method gensalt functions are replaced by their contracts.  */
#include "crypt-port.h"
#include "xv.h"
#include "models/strings.h"
#include <stdlib.h>

size_t g_set_size;
size_t g_bk;

#include "lib/crypt.c"
#include "spec/prefix.h"
#include "contracts/crypt_c_stubs.h"

/* ------------------------------------------------------------------ stubs */
#ifndef XV_NATIVE
/* do_crypt contract (enforced by job do_crypt):
   requires: data->output holds the failure token
   assigns:  data->output, data->internal, data->reserved, data->initialized, errno
   ensures:  either refused/failed: output untouched, errno in {EINVAL, ERANGE, ENOMEM}
             or success: output holds a NUL-terminated string not starting with '*'  */
static int dc_calls;
static bool dc_token_ok, dc_args_ok, dc_failed;
static const char *dc_phrase, *dc_setting;
static struct crypt_data *dc_data;

void do_crypt_stub (const char *phrase, const char *setting, struct crypt_data *data)
{
  dc_calls++;
  dc_args_ok = phrase == dc_phrase && setting == dc_setting && data == dc_data;
  dc_token_ok = data->output[0] == '*' && (data->output[1] == '0' || data->output[1] == '1')
                && data->output[2] == 0;
  XV_STUBPRE ("C05", dc_token_ok, "do_crypt: the failure token is in place before hashing starts");
  dc_failed = nondet_bool ();
  if (dc_failed)
    {
      int e = nondet_int ();
      __CPROVER_assume (e == EINVAL || e == ERANGE || e == ENOMEM);
      errno = e;
    }
  else
    {
      size_t n = nondet_size ();
      __CPROVER_assume (n >= 1 && n < 384);
      for (size_t i = 0; i < 384; i++)   /* XV_UNWIND 384 */
        {
          char c = nondet_char ();
          if (i == 0) __CPROVER_assume (c != '*' && c != 0);
          if (i == n) c = 0;
          data->output[i] = c;
        }
    }
}
#endif

/* --------------------------------------------------------------- crypt_rn */
#if defined A_crypt_rn_small
/* size < sizeof (struct crypt_data): the object has exactly max(size,0) bytes */
void harness (void)
{
  XV_IN (int, size, nondet_int);
  XV_ASSUME (size < (int) sizeof (struct crypt_data));
  XV_IN (_Bool, star0, nondet_bool);
  size_t osz = size > 0 ? (size_t) size : 0;
  unsigned char *obj = malloc (osz);
  XV_ASSUME (obj != NULL);
  char set[4] = { star0 ? '*' : '$', '0', 'x', 0 };
  unsigned char b0 = osz > 0 ? obj[0] : 0, b1 = osz > 1 ? obj[1] : 0, b2 = osz > 2 ? obj[2] : 0;
  XV_IN (size_t, k, nondet_size);
  XV_ASSUME (k >= 3);
  unsigned char bk0 = k < osz ? obj[k] : 0;
  dc_calls = 0; errno = 0;
  char *r = crypt_rn ("pw", set, obj, size);
  XV_ASSERT ("C05,C04", r == NULL && errno == ERANGE && dc_calls == 0,
             "an undersized data object is refused with NULL/ERANGE before any hashing");
  XV_ASSERT ("C04", k >= osz || obj[k] == bk0, "nothing beyond the first three bytes is written");
  if (size >= 3)
    {
      XV_ASSERT ("C05", obj[0] == '*' && obj[1] == (star0 ? '1' : '0') && obj[2] == 0, "failure token *0 / *1");
      XV_CANARY ("size 3..32767");
    }
  else if (size == 2)
    XV_ASSERT ("C05", obj[0] == '*' && obj[1] == 0, "size 2: token truncated to *");
  else if (size == 1)
    XV_ASSERT ("C05", obj[0] == 0, "size 1: empty string");
  else
    XV_CANARY ("size <= 0");
  (void) b0; (void) b1; (void) b2;
}
#endif

#if defined A_crypt_rn || defined A_crypt_r || defined A_crypt_ra
struct xv_blk { unsigned char lo[16]; struct crypt_data d; unsigned char hi[16]; };

void harness (void)
{
  XV_IN (_Bool, phrase_null, nondet_bool);
  XV_IN (_Bool, setting_null, nondet_bool);
  XV_IN (unsigned char, s0, nondet_uchar);
  XV_IN (unsigned char, s1, nondet_uchar);
  /* make_failure_token reads at most setting[0..1] */
  char set[3] = { (char) s0, (char) s1, 0 };
  XV_ASSUME (s0 != 0);
  const char *phrase = phrase_null ? NULL : "pw";
  const char *setting = setting_null ? NULL : set;
  struct xv_blk *blk = malloc (sizeof (struct xv_blk));
  XV_ASSUME (blk != NULL);
  struct crypt_data *data = &blk->d;
  unsigned char lo0 = blk->lo[15], hi0 = blk->hi[0];
  XV_IN (size_t, js, nondet_size); XV_ASSUME (js < sizeof data->setting);
  XV_IN (size_t, ji, nondet_size); XV_ASSUME (ji < sizeof data->input);
  char fs = data->setting[js], fi = data->input[ji];
  dc_calls = 0; dc_phrase = phrase; dc_setting = setting; dc_data = data;
  errno = 0;
#if defined A_crypt_rn
  XV_IN (int, size, nondet_int);
  XV_ASSUME (size >= (int) sizeof (struct crypt_data));
  char *r = crypt_rn (phrase, setting, data, size);
#elif defined A_crypt_r
  char *r = crypt_r (phrase, setting, data);
#else
  /* crypt_ra with a block that is already large enough (the allocation
     protocol itself is job crypt_ra_alloc) */
  void *dp = data;
  XV_IN (int, size, nondet_int);
  XV_ASSUME (size >= (int) sizeof (struct crypt_data));
  int sz = size;
  char *r = crypt_ra (phrase, setting, &dp, &sz);
  XV_ASSERT ("C14", dp == (void *) data && sz == size, "a sufficient block is used as it is: *data and *size unchanged");
#endif
  XV_ASSERT ("C07", dc_calls == 1 && dc_args_ok,
             "exactly one call of do_crypt with the caller's phrase, setting and data object");
  XV_ASSERT ("C04", blk->lo[15] == lo0 && blk->hi[0] == hi0 && data->setting[js] == fs && data->input[ji] == fi,
             "nothing outside the data object, and nothing in its setting and input fields, is written");
  bool failed = data->output[0] == '*';
  XV_ASSERT ("C05", failed == dc_failed, "the outcome is do_crypt's outcome");
  if (failed)
    {
      bool star0 = !setting_null && s0 == '*' && s1 == '0';
      XV_ASSERT ("C05", data->output[1] == (star0 ? '1' : '0') && data->output[2] == 0,
                 "on failure the output field holds *0, or *1 when the setting begins with *0 (never a stale hash)");
      XV_ASSERT ("C05", errno == EINVAL || errno == ERANGE || errno == ENOMEM, "errno is set on failure");
#if defined A_crypt_r && ENABLE_FAILURE_TOKENS
      XV_ASSERT ("C05,C07", r == data->output, "crypt_r returns the failure token (failure tokens enabled in this build)");
#else
      XV_ASSERT ("C05,C07", r == NULL, "NULL is returned on failure");
#endif
      XV_CANARY ("failure path");
    }
  else
    {
      XV_ASSERT ("C04,C07", r == data->output, "the result is the output field of the data object");
      XV_CANARY ("success path");
    }
}
#endif

/* ------------------------------------------------- crypt_ra: allocation */
#if defined A_crypt_ra_alloc
/* realloc model: may fail; on success the old block is released and a fresh
   block of the requested size with arbitrary contents is returned (a superset
   of realloc's copy-prefix behaviour; crypt_ra overwrites the block anyway) */
static int ra_calls; static void *ra_old; static size_t ra_size; static bool ra_failed;
/* memset (libc), modelled by its contract through a ghost log instead of a
   32 KiB write (same reasoning as explicit_bzero's event model) */
static int ms_calls_; static void *ms_p; static int ms_c; static size_t ms_n; static unsigned ms_seq_;
void *memset (void *s, int c, size_t n)
{
  __CPROVER_assert (n == 0 || __CPROVER_w_ok (s, n), "[C04] memset: region is writable");
  ms_calls_++; ms_p = s; ms_c = c; ms_n = n; ms_seq_ = xv_event_seq++;
  return s;
}
void *realloc (void *p, size_t n)
{
  ra_calls++; ra_old = p; ra_size = n;
  /* C09: the old block must have been erased over its recorded size */
  ra_failed = nondet_bool ();
  if (ra_failed) return NULL;
  /* typed allocation for the one size crypt_ra asks for: a byte block
     reinterpreted as struct crypt_data is far more expensive for CBMC */
  void *q;
  if (n == sizeof (struct crypt_data))
    {
      struct crypt_data *t = malloc (sizeof (struct crypt_data));
      q = t;
    }
  else
    q = malloc (n);
  __CPROVER_assume (q != NULL);
  if (p) free (p);
  return q;
}

void harness (void)
{
  XV_IN (int, size0, nondet_int);
  XV_IN (_Bool, have_block, nondet_bool);
  /* the caller's block: absent, or a malloc'd block of max(size0, 1) bytes
     whose recorded size may be negative, zero or too small */
  /* Bound of this job: an undersized block's recorded size is at most 64
     (the recorded size only reaches the comparison with sizeof (struct
     crypt_data) and explicit_bzero's length argument; the block itself is a
     constant 64 bytes so that CBMC does not need a symbolic-size object).  */
  XV_ASSUME (size0 <= 64);
  void *dp = have_block ? malloc (64) : NULL;
  XV_ASSUME (!have_block || dp != NULL);
  void *dp0 = dp;
  int sz = size0;
  char set[3] = { '$', '1', 0 };
  ra_calls = 0; dc_calls = 0; xv_bzero_n = 0; xv_event_seq = 1; ms_calls_ = 0;
  dc_phrase = "pw"; dc_setting = set;
  errno = 0;
  /* dc_data is only known after the reallocation */
  char *r = crypt_ra ("pw", set, &dp, &sz);
  XV_ASSERT ("C14", ra_calls == 1 && ra_old == dp0 && ra_size == sizeof (struct crypt_data),
             "an absent or undersized block is (re)allocated exactly once to sizeof (struct crypt_data)");
  if (have_block && size0 > 0)
    XV_ASSERT ("C09,C14", xv_bzero_n >= 1 && xv_bzero_log[0].p == dp0 && xv_bzero_log[0].n == (size_t) size0,
               "the undersized block is erased over its recorded size before it is handed to realloc");
  else
    XV_ASSERT ("C04,C14", xv_bzero_n == 0, "no erasure is attempted through a NULL pointer or with a non-positive size");
  if (ra_failed)
    {
      XV_ASSERT ("C14,C15", r == NULL && dp == dp0 && sz == size0 && dc_calls == 0,
                 "allocation failure: NULL, *data and *size unchanged (the old block is still the caller's), nothing hashed");
      XV_CANARY ("realloc failed");
      if (dp0) free (dp0);
    }
  else
    {
      XV_ASSERT ("C14", dp != NULL && sz == (int) sizeof (struct crypt_data) && __CPROVER_OBJECT_SIZE (dp) == sizeof (struct crypt_data)
                 && __CPROVER_POINTER_OFFSET (dp) == 0,
                 "*data is the new live block and *size its size");
      XV_ASSERT ("C14", ms_calls_ == 1 && ms_p == dp && ms_c == 0 && ms_n == sizeof (struct crypt_data),
                 "the new block is zero-initialised over its whole size (memset's contract)");
      XV_ASSERT ("C14", dc_calls == 1 && r == (((struct crypt_data *) dp)->output[0] == '*' ? NULL : ((struct crypt_data *) dp)->output),
                 "hashing proceeds in the new block; a non-NULL result points into it");
      XV_CANARY ("realloc succeeded");
      free (dp);          /* the caller frees exactly once: no double free, no leak (memory-leak check) */
    }
}
#endif

/* -------------------------------------------------------- crypt_checksalt */
#if defined A_checksalt
void harness (void)
{
  XV_IN (_Bool, is_null, nondet_bool);
  XV_IN (size_t, set_len, nondet_size);
  XV_ASSUME (set_len <= XV_MAXOBJ);
  XV_IN_BYTES (set, setting, set_len, 1);
  set[set_len] = 0;
  bool strs_ok = true, all_safe = true;
  for (size_t k = 0; k < 512; k++)   /* XV_UNWIND 512 */
    {
      if (k < set_len && set[k] == 0) strs_ok = false;
      if (k < set_len && !xv_passwd_safe (set[k])) all_safe = false;
    }
  XV_ASSUME (strs_ok);
  xv_str_reset ();
  xv_str_register ((const char *) set, set_len);
  XV_IN (size_t, bk, nondet_size);
  XV_ASSUME (bk < set_len);
  g_bk = bk;
  int r = crypt_checksalt (is_null ? NULL : (const char *) set);
  int want = is_null ? -1 : spec_method_of_prefix (set, set_len);
  XV_ASSERT ("C18", r == CRYPT_SALT_OK || r == CRYPT_SALT_INVALID || r == CRYPT_SALT_METHOD_LEGACY,
             "result is one of OK, INVALID, METHOD_LEGACY");
  if (r != CRYPT_SALT_INVALID)
    {
      XV_ASSERT ("C18", !is_null && set_len > 0 && xv_passwd_safe (set[bk]) && want >= 0,
                 "anything but INVALID implies a non-empty, well-charactered setting with a recognised, enabled prefix");
      XV_ASSERT ("C18,C19", (r == CRYPT_SALT_OK) == spec_method_is_strong (want),
                 "OK exactly for the methods crypt(5) classifies as strong, LEGACY for every other recognised method");
      XV_CANARY ("valid path");
    }
  else
    {
      XV_ASSERT ("C18", is_null || set_len == 0 || want < 0 || !(set_len < 512 && all_safe),
                 "INVALID only for NULL, empty, ill-charactered or unrecognised settings");
      XV_CANARY ("invalid path");
    }
}
#endif

/* ------------------------------------------------- crypt_preferred_method */
#if defined A_preferred
void harness (void)
{
  const char *p = crypt_preferred_method ();
#ifdef HASH_ALGORITHM_DEFAULT
  XV_ASSERT ("C18,C19", p != NULL, "a default method exists in this configuration");
  size_t n = 0;
  while (n < 8 && p[n]) n++;     /* XV_UNWIND 8 */
  int m = spec_method_of_prefix ((const unsigned char *) p, n);
  XV_ASSERT ("C18,C19", m >= 0 && spec_method_is_strong (m),
             "the preferred method is enabled and one for which crypt_checksalt says OK");
  /* the first DEFAULT-capable enabled method in hashes.conf order: yescrypt,
     gost-yescrypt is not default-capable, scrypt, bcrypt, sha512crypt */
#if INCLUDE_yescrypt
  XV_ASSERT ("C19", m == M_YESCRYPT, "strongest enabled default-capable method");
#elif INCLUDE_scrypt
  XV_ASSERT ("C19", m == M_SCRYPT, "strongest enabled default-capable method");
#elif INCLUDE_bcrypt
  XV_ASSERT ("C19", m == M_BCRYPT_B, "strongest enabled default-capable method");
#elif INCLUDE_sha512crypt
  XV_ASSERT ("C19", m == M_SHA512CRYPT, "strongest enabled default-capable method");
#endif
#else
  XV_ASSERT ("C18,C19", p == NULL, "no default-capable method is enabled: NULL");
#endif
  XV_CANARY ("preferred");
}
#endif

/* ------------------------------------------------------- crypt_gensalt_rn */
#if defined A_gensalt_rn || defined A_gensalt_ra
#ifndef XV_NATIVE
/* L0 contract of the per-method salt generators (enforced per method by the
   gensalt_* jobs):
   requires: output_size >= 3, output holds the failure token, rbytes has
             nrbytes readable bytes
   assigns:  output[0 .. output_size), errno
   ensures:  failure: output untouched, errno EINVAL or ERANGE
             success: a NUL-terminated string shorter than output_size (and
             than 192), not starting with '*'  */
static int gs_calls, gs_method; static bool gs_args_ok, gs_failed; static unsigned gs_seq;
static unsigned long gs_count; static const uint8_t *gs_rb; static size_t gs_nrb; static uint8_t *gs_out; static size_t gs_osz;
static void gs_stub (int id, unsigned long count, const uint8_t *rbytes, size_t nrbytes, uint8_t *output, size_t output_size)
{
  gs_calls++; gs_method = id; gs_seq = xv_event_seq++;
  gs_count = count; gs_rb = rbytes; gs_nrb = nrbytes; gs_out = output; gs_osz = output_size;
  XV_STUBPRE ("C13", output_size >= 3 && output[0] == '*' && output[1] == '0' && output[2] == 0,
              "gensalt method: at least 3 bytes of output, holding the failure token");
  XV_STUBPRE ("C04", nrbytes == 0 || XV_R_OK (rbytes, nrbytes), "gensalt method: rbytes has nrbytes readable bytes");
  gs_failed = nondet_bool ();
  if (gs_failed)
    {
      int e = nondet_int ();
      __CPROVER_assume (e == EINVAL || e == ERANGE);
      errno = e;
    }
  else
    {
      size_t n = nondet_size ();
      __CPROVER_assume (n >= 1 && n < output_size && n < 192);
      for (size_t i = 0; i < 192; i++)   /* XV_UNWIND 192 */
        if (i <= n)
          {
            char c = nondet_char ();
            __CPROVER_assume (c != 0 && (i != 0 || c != '*'));
            output[i] = i == n ? 0 : (uint8_t) c;
          }
    }
}
#define XV_GS_STUB(name, id) \
  void name (unsigned long count, const uint8_t *rbytes, size_t nrbytes, uint8_t *output, size_t output_size) \
  { gs_stub (id, count, rbytes, nrbytes, output, output_size); }
#if INCLUDE_sha1crypt
XV_GS_STUB (gensalt_sha1crypt_rn, M_SHA1CRYPT)
#endif
#if INCLUDE_bcrypt_a
XV_GS_STUB (gensalt_bcrypt_a_rn, M_BCRYPT_A)
#endif
#if INCLUDE_bcrypt
XV_GS_STUB (gensalt_bcrypt_rn, M_BCRYPT_B)
#endif
#if INCLUDE_bcrypt_x
XV_GS_STUB (gensalt_bcrypt_x_rn, M_BCRYPT_X)
#endif
#if INCLUDE_bcrypt_y
XV_GS_STUB (gensalt_bcrypt_y_rn, M_BCRYPT_Y)
#endif
#if INCLUDE_gost_yescrypt
XV_GS_STUB (gensalt_gost_yescrypt_rn, M_GOST_YESCRYPT)
#endif
#if INCLUDE_sunmd5
XV_GS_STUB (gensalt_sunmd5_rn, M_SUNMD5)
#endif
#if INCLUDE_md5crypt
XV_GS_STUB (gensalt_md5crypt_rn, M_MD5CRYPT)
#endif
#if INCLUDE_nt
XV_GS_STUB (gensalt_nt_rn, M_NT)
#endif
#if INCLUDE_sha256crypt
XV_GS_STUB (gensalt_sha256crypt_rn, M_SHA256CRYPT)
#endif
#if INCLUDE_sha512crypt
XV_GS_STUB (gensalt_sha512crypt_rn, M_SHA512CRYPT)
#endif
#if INCLUDE_scrypt
XV_GS_STUB (gensalt_scrypt_rn, M_SCRYPT)
#endif
#if INCLUDE_yescrypt
XV_GS_STUB (gensalt_yescrypt_rn, M_YESCRYPT)
#endif
#if INCLUDE_bsdicrypt
XV_GS_STUB (gensalt_bsdicrypt_rn, M_BSDICRYPT)
#endif
#if INCLUDE_bigcrypt
XV_GS_STUB (gensalt_bigcrypt_rn, M_BIGCRYPT)
#endif
#if INCLUDE_descrypt
XV_GS_STUB (gensalt_descrypt_rn, M_DESCRYPT)
#endif

/* get_random_bytes contract (lib/util-get-random-bytes.c; enforced by job
   get_random_bytes): fills exactly buf[0..buflen) from the OS generator and
   returns true, or returns false with errno set */
static int rb_calls; static void *rb_buf; static size_t rb_len; static bool rb_failed;
bool get_random_bytes (void *buf, size_t buflen)
{
  rb_calls++; rb_buf = buf; rb_len = buflen;
  XV_STUBPRE ("C04", buflen == 0 || XV_W_OK (buf, buflen), "get_random_bytes: buffer is writable");
  rb_failed = nondet_bool ();
  if (rb_failed) { errno = ENOSYS; return false; }
  XV_HAVOC_SLICE (buf, buflen);
  return true;
}
#endif /* !XV_NATIVE */
#endif

#if defined A_gensalt_rn
void harness (void)
{
  XV_IN (_Bool, prefix_null, nondet_bool);
  XV_IN (_Bool, rbytes_null, nondet_bool);
  XV_IN (unsigned long, count, nondet_ulong);
  XV_IN (int, nrbytes, nondet_int);
  XV_IN (int, osz, nondet_int);
  XV_IN (size_t, pfx_len, nondet_size);
  XV_ASSUME (pfx_len <= XV_MAXOBJ);
  XV_IN_BYTES (pfx, prefix, pfx_len, 1);
  pfx[pfx_len] = 0;
  bool strs_ok = true;
  for (size_t k = 0; k < 8; k++)
    if (k < pfx_len && pfx[k] == 0) strs_ok = false;
  XV_ASSUME (strs_ok);
  xv_str_reset ();
  xv_str_register ((const char *) pfx, pfx_len);
  /* the caller's random bytes: exactly max(nrbytes, 0) of them */
  size_t rlen = nrbytes > 0 ? (size_t) nrbytes : 0;
  XV_ASSUME (rlen <= 300);
  unsigned char *rb = malloc (rlen);
  XV_ASSUME (rb != NULL);
  /* constant 256-byte output object, arbitrary output_size (see gensalt_sha.c) */
  unsigned char *out = malloc (256);
  XV_ASSUME (out != NULL);
  XV_IN (size_t, fk, nondet_size);
  XV_ASSUME (fk < 256);
  unsigned char f0 = out[fk];
  gs_calls = 0; rb_calls = 0; xv_bzero_n = 0; xv_event_seq = 1; errno = 0;
  const char *prefix = prefix_null ? NULL : (const char *) pfx;
  char *r = crypt_gensalt_rn (prefix, count, rbytes_null ? NULL : (const char *) rb, nrbytes, (char *) out, osz);

  XV_ASSERT ("C13,C04", (osz > 0 && fk < (size_t) osz) || out[fk] == f0,
             "nothing at or beyond output_size is written; nothing at all for sizes <= 0");
  /* the method the prefix selects; NULL selects the build's preferred method */
  int want;
#ifdef HASH_ALGORITHM_DEFAULT
  static const char dflt[] = HASH_ALGORITHM_DEFAULT;
  if (prefix_null) want = spec_method_of_prefix ((const unsigned char *) dflt, sizeof dflt - 1);
  else
#else
  if (prefix_null) want = -1;
  else
#endif
    want = spec_method_of_prefix (pfx, pfx_len);

  if (osz < 3)
    {
      XV_ASSERT ("C13", r == NULL && errno == ERANGE && gs_calls == 0, "sizes below 3: NULL with ERANGE, no method runs");
      XV_ASSERT ("C13", osz != 2 || (out[0] == '*' && out[1] == 0), "size 2 leaves *");
      XV_ASSERT ("C13", osz != 1 || out[0] == 0, "size 1 leaves the empty string");
      XV_CANARY ("tiny buffer");
      return;
    }
  if (want < 0)
    {
      XV_ASSERT ("C13,C19", r == NULL && errno == EINVAL && gs_calls == 0 && out[0] == '*' && out[1] == '0' && out[2] == 0,
                 "unknown or disabled prefix: NULL with EINVAL and the failure token");
      XV_CANARY ("unknown prefix");
      return;
    }
  if (!rbytes_null && nrbytes < 0)
    {
      XV_ASSERT ("C04,C13", r == NULL && errno == EINVAL && gs_calls == 0 && out[0] == '*' && out[1] == '0' && out[2] == 0,
                 "a negative length for caller-supplied random bytes is refused with EINVAL");
      XV_CANARY ("negative nrbytes");
      return;
    }
  if (rbytes_null && rb_failed)
    {
      XV_ASSERT ("C12,C13", r == NULL && gs_calls == 0 && out[0] == '*', "no OS randomness: NULL, token stays");
      XV_CANARY ("entropy failure");
      return;
    }
  XV_ASSERT ("C10,C18", gs_calls == 1 && gs_method == want && gs_count == count && gs_out == out && gs_osz == (size_t) osz,
             "exactly one call of the selected method's generator with the caller's count, buffer and size");
  if (rbytes_null)
    {
      XV_ASSERT ("C12", rb_calls == 1 && rb_len > 0 && gs_rb == rb_buf && gs_nrb == rb_len,
                 "with rbytes == NULL exactly the bytes drawn from the OS generator are handed to the method");
      XV_ASSERT ("C09", xv_bzero_n == 1 && xv_bzero_log[0].p == rb_buf && xv_bzero_log[0].n == rb_len && xv_bzero_log[0].seq > gs_seq,
                 "the drawn random bytes are erased after the method returned");
      XV_CANARY ("OS entropy path");
    }
  else
    {
      XV_ASSERT ("C10,C04", rb_calls == 0 && gs_rb == rb && nrbytes >= 0 && gs_nrb == (size_t) nrbytes,
                 "caller-supplied random bytes are passed through with their length");
      XV_CANARY ("caller entropy path");
    }
  XV_ASSERT ("C13,C10", (r == NULL) == gs_failed && (r == NULL || r == (char *) out),
             "the result is the buffer on success and NULL on failure");
  if (r == NULL)
    XV_ASSERT ("C13", out[0] == '*' && out[1] == '0' && out[2] == 0 && (errno == EINVAL || errno == ERANGE),
               "failure leaves the token and an errno of EINVAL or ERANGE");
}
#endif

#if defined A_gensalt_ra
/* crypt_gensalt_ra: crypt_gensalt_rn replaced by its contract */
static int grn_calls; static char *grn_out; static int grn_osz; static bool grn_failed;
char *crypt_gensalt_rn_stub (const char *prefix, unsigned long count, const char *rbytes, int nrbytes, char *output, int output_size)
{
  grn_calls++; grn_out = output; grn_osz = output_size;
  XV_STUBPRE ("C04", output_size > 0 && XV_W_OK (output, (size_t) output_size), "crypt_gensalt_rn: output has output_size writable bytes");
  grn_failed = nondet_bool ();
  if (grn_failed) { errno = EINVAL; return 0; }
  return output;
}
void harness (void)
{
  grn_calls = 0;
  char *r = crypt_gensalt_ra ("$6$", 0, 0, 0);
  if (r == NULL)
    {
      XV_CANARY ("NULL path");        /* malloc failed or the generator failed: nothing live (memory-leak check) */
    }
  else
    {
      XV_ASSERT ("C14,C10", grn_calls == 1 && r == grn_out && grn_osz == CRYPT_GENSALT_OUTPUT_SIZE
                 && __CPROVER_OBJECT_SIZE (r) == CRYPT_GENSALT_OUTPUT_SIZE && __CPROVER_POINTER_OFFSET (r) == 0,
                 "the result is a live malloc'd block of CRYPT_GENSALT_OUTPUT_SIZE bytes filled by crypt_gensalt_rn");
      XV_CANARY ("success path");
      free (r);
    }
}
#endif

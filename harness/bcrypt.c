/* bcrypt (lib/crypt-bcrypt.c): the radix-64 codec, the setting parser and
   output assembly of BF_crypt, and BF_full_crypt's copy-out discipline.

   B_codec   BF_encode / BF_decode are inverse on 16 bytes (the salt) and
             BF_encode of 23 bytes emits 31 characters of bcrypt's alphabet
             (C02); BF_decode stops at the first character outside the
             alphabet, reading nothing beyond it (C04).
   B_canon   the canonical last salt character BF_crypt writes decodes to
             the same 16 salt bytes as the one in the setting, and is a fixed
             point of the canonicalisation (C01: the produced hash, used as a
             setting, selects the same salt and reproduces its own prefix).
   B_crypt   BF_crypt: accepts exactly the documented settings, fails with
             EINVAL without touching the output otherwise (C05, C11); on
             success the output is the first 28 setting characters, the
             canonical 29th, 31 alphabet characters and a NUL, and nothing
             beyond 60 bytes (C03, C04).  The Eksblowfish loops are closed by
             loop contracts that carry only what memory safety needs.
   B_full    BF_full_crypt with BF_crypt by contract: output written only
             when the hash and the self-test both succeeded (C05).  */
#include "crypt-port.h"
#include "xv.h"
#include "models/strings.h"
#include "lib/crypt-bcrypt.c"

static const unsigned char spec_bf64[65] =
  "./ABCDEFGHIJKLMNOPQRSTUVWXYZabcdefghijklmnopqrstuvwxyz0123456789";
static bool in_bf64 (unsigned char c)
{
  return c == '.' || c == '/' || (c >= 'A' && c <= 'Z') || (c >= 'a' && c <= 'z') || (c >= '0' && c <= '9');
}
static unsigned spec_val (unsigned char c)
{
  if (c == '.') return 0;
  if (c == '/') return 1;
  if (c >= 'A' && c <= 'Z') return 2 + (c - 'A');
  if (c >= 'a' && c <= 'z') return 28 + (c - 'a');
  return 54 + (c - '0');
}

#ifdef B_codec
void harness (void)
{
  BF_word bin[6], back[4];
  unsigned char *txt = malloc (32);
  XV_ASSUME (txt != NULL);
  for (int i = 0; i < 6; i++) bin[i] = nondet_u32 ();   /* XV_UNWIND 6 */
  /* 16 bytes -> 22 characters -> the same 16 bytes */
  BF_encode (txt, bin, 16);
  XV_IN (size_t, k, nondet_size);
  XV_ASSUME (k < 22);
  XV_ASSERT ("C02", in_bf64 (txt[k]), "every character BF_encode emits is in bcrypt's alphabet (arbitrary position, 16-byte input)");
  XV_ASSERT ("C02", spec_bf64[spec_val (txt[k])] == txt[k], "spec alphabet table and value function agree");
  int rc = BF_decode (back, (const char *) txt, 16);
  XV_ASSERT ("C02,C01", rc == 0 && back[0] == bin[0] && back[1] == bin[1] && back[2] == bin[2] && back[3] == bin[3],
             "BF_decode (BF_encode (x, 16), 16) == x for every 16-byte x");
  /* 23 bytes -> 31 characters */
  unsigned char *h = malloc (31);
  XV_ASSUME (h != NULL);
  BF_encode (h, bin, 23);   /* a 32nd write would be out of bounds */
  XV_IN (size_t, m, nondet_size);
  XV_ASSUME (m < 31);
  XV_ASSERT ("C02", in_bf64 (h[m]), "the 31 hash characters are in bcrypt's alphabet (arbitrary position)");
  XV_CANARY ("codec");
}
#endif

#ifdef B_decode
/* arbitrary text: BF_decode reads up to the first character outside the
   alphabet and no further; the object ends right after that character */
void harness (void)
{
  XV_IN (size_t, n, nondet_size);
  XV_ASSUME (n >= 1 && n <= 22);
  unsigned char *s = malloc (n);
  XV_ASSUME (s != NULL);
  bool all_valid = true;
  for (size_t i = 0; i < 22; i++)   /* XV_UNWIND 22 */
    if (i + 1 < n && !in_bf64 (s[i])) all_valid = false;
  /* the first n-1 characters are valid, the last is not (e.g. the NUL of a short setting) -
     or all 22 are valid */
  XV_ASSUME (all_valid && (n == 22 || !in_bf64 (s[n - 1])));
  BF_word out[4];
  int rc = BF_decode (out, (const char *) s, 16);
  XV_ASSERT ("C05,C04", (rc == 0) == (n == 22 && in_bf64 (s[21])), "BF_decode succeeds exactly when all 22 salt characters are in the alphabet");
  if (rc != 0) XV_CANARY ("short or invalid salt");
  else XV_CANARY ("valid salt");
}
#endif

#ifdef B_canon
void harness (void)
{
  unsigned char *s = malloc (22), *t = malloc (22);
  XV_ASSUME (s != NULL && t != NULL);
  BF_word a[4], b[4];
  int ra = BF_decode (a, (const char *) s, 16);
  XV_ASSUME (ra == 0);
  for (int i = 0; i < 21; i++) t[i] = s[i];   /* XV_UNWIND 21 */
  /* the expression BF_crypt uses for output[28] */
  t[21] = BF_itoa64[(int) BF_atoi64[(int) s[21] - 0x20] & 0x30];
  int rb = BF_decode (b, (const char *) t, 16);
  XV_ASSERT ("C01", rb == 0 && a[0] == b[0] && a[1] == b[1] && a[2] == b[2] && a[3] == b[3],
             "the canonical last salt character selects the same 16 salt bytes");
  XV_ASSERT ("C01", BF_itoa64[(int) BF_atoi64[(int) t[21] - 0x20] & 0x30] == t[21], "canonicalisation is idempotent");
  XV_CANARY ("canon");
}
#endif

#ifdef B_crypt
void harness (void)
{
  XV_IN (size_t, n, nondet_size);
  XV_ASSUME (n <= 64);
  unsigned char *s = malloc (n + 1);           /* exact size: an over-read is an error */
  XV_IN (size_t, klen, nondet_size);
  XV_ASSUME (klen <= 80);
  unsigned char *key = malloc (klen + 1);
  unsigned char *out = malloc (BF_HASH_LENGTH);  /* exactly what BF_full_crypt provides */
  struct BF_data *data = malloc (sizeof (struct BF_data));
  XV_ASSUME (s != NULL && key != NULL && out != NULL && data != NULL);
  bool nz = true;
  for (size_t i = 0; i < 64; i++)   /* XV_UNWIND 64 */
    if (i < n && s[i] == 0) nz = false;
  for (size_t i = 0; i < 80; i++)   /* XV_UNWIND 80 */
    if (i < klen && key[i] == 0) nz = false;
  XV_ASSUME (nz);
  s[n] = 0; key[klen] = 0;
  XV_IN (unsigned, min, nondet_uint);
  XV_ASSUME (min == 1 || min == 16);            /* the two values BF_full_crypt passes */
  XV_IN (size_t, k, nondet_size);
  XV_ASSUME (k < BF_HASH_LENGTH);
  unsigned char old = out[k];
  errno = 0;

  /* crypt(5): $2[abxy]$NN$ + 22 characters; NN decimal, 04..31 for hashing */
  bool hdr = n >= 7 && s[0] == '$' && s[1] == '2' && (s[2] == 'a' || s[2] == 'b' || s[2] == 'x' || s[2] == 'y')
             && s[3] == '$' && s[4] >= '0' && s[4] <= '9' && s[5] >= '0' && s[5] <= '9' && s[6] == '$';
  unsigned cost = hdr ? (unsigned) (s[4] - '0') * 10 + (unsigned) (s[5] - '0') : 0;
  bool salt_ok = n >= 29;
  for (size_t i = 7; i < 29; i++)   /* XV_UNWIND 30 */
    if (i < n && !in_bf64 (s[i])) salt_ok = false;
  bool spec_ok = hdr && cost <= 31 && (cost >= 4 || (min == 1 && 1u << cost >= min)) && salt_ok;

  bool ok = BF_crypt ((const char *) key, (const char *) s, out, data, min);

  XV_ASSERT ("C05,C10,C11", ok == spec_ok, "BF_crypt accepts exactly: $2[abxy]$, two-digit cost 04..31 (00..31 for the self-test minimum), $, 22 alphabet characters");
  if (!ok)
    {
      XV_ASSERT ("C05", errno == EINVAL, "rejected settings set EINVAL");
      XV_ASSERT ("C05,C04", out[k] == old, "rejected settings leave the output untouched (arbitrary byte)");
      XV_CANARY ("rejected");
    }
  else
    {
      XV_ASSERT ("C05", errno == 0, "success leaves errno alone");
      XV_ASSERT ("C03,C01", k >= 28 || out[k] == s[k], "the output starts with the first 28 characters of the setting (arbitrary position)");
      XV_ASSERT ("C03,C01", out[28] == spec_bf64[spec_val (s[28]) & 0x30], "the 29th character is the canonical form of the setting's (unused low bits cleared)");
      XV_ASSERT ("C02", k < 29 || k >= 59 || in_bf64 (out[k]), "31 hash characters from bcrypt's alphabet follow (arbitrary position)");
      XV_ASSERT ("C04,C02", out[BF_HASH_LENGTH - 1] == 0 && BF_HASH_LENGTH == 60, "NUL-terminated at 60 bytes");
      XV_CANARY ("accepted");
      if (cost == 31) XV_CANARY ("cost 31");
    }
}
#endif

#ifdef B_full
/* BF_crypt by the contract bcrypt_crypt enforces */
static int bf_calls; static const char *bf_key[2], *bf_set[2]; static unsigned char *bf_out[2];
static struct BF_data *bf_data[2]; static BF_word bf_min[2]; static bool bf_ok[2]; static unsigned char bf_sub[2];
static size_t g_n, g_k; static unsigned char bf_out0_k;
bool bf_crypt_stub (const char *key, const char *setting, unsigned char *output, struct BF_data *data, BF_word min)
{
  XV_STUBPRE ("C04", XV_W_OK (output, BF_HASH_LENGTH) && XV_W_OK (data, sizeof (struct BF_data)), "BF_crypt: 60 writable output bytes and a BF_data scratch");
  XV_STUBPRE ("C04", bf_calls < 2, "BF_crypt is called at most twice");
  int c = bf_calls++;
  bf_key[c] = key; bf_set[c] = setting; bf_out[c] = output; bf_data[c] = data; bf_min[c] = min;
  bool ok = nondet_bool ();
  /* first call: the caller's setting, accepted only in the documented shape */
  if (c == 0 && g_n < 29) ok = false;
  bf_ok[c] = ok;
  if (!ok) { errno = EINVAL; return false; }
  bf_sub[c] = (unsigned char) setting[2];
  XV_HAVOC_SLICE (output, BF_HASH_LENGTH);
  __CPROVER_assume (output[BF_HASH_LENGTH - 1] == 0 && output[0] == '$' && output[1] == '2' && output[2] == (unsigned char) setting[2]);
  if (c == 0) bf_out0_k = output[g_k];
  return true;
}
void harness (void)
{
  XV_IN (size_t, n, nondet_size);
  XV_ASSUME (n <= 64);
  unsigned char *s = malloc (n + 1);
  unsigned char *key = malloc (1);
  XV_IN (size_t, osz, nondet_size);
  XV_IN (size_t, ssz, nondet_size);
  XV_ASSUME (osz <= 384 && ssz <= 8192);
  unsigned char *out = malloc (osz);
  void *scratch = malloc (ssz);
  XV_ASSUME (s != NULL && key != NULL && out != NULL && scratch != NULL);
  s[n] = 0; key[0] = 0;
  XV_ASSUME (n < 3 || (s[2] >= 'a' && s[2] <= 'z'));   /* what an accepted setting has; keeps flags_by_subtype[] in range as BF_crypt's check does */
  XV_IN (size_t, k, nondet_size);
  XV_ASSUME (k < osz && k < BF_HASH_LENGTH);
  g_n = n; g_k = k; bf_calls = 0;
  unsigned char old = out[k];
  XV_IN (int, e0, nondet_int);
  XV_ASSUME (e0 != EINVAL && e0 != ERANGE);   /* any prior errno that lets the harness tell the outcomes apart */
  errno = e0;
  BF_full_crypt ((const char *) key, (const char *) s, out, osz, scratch, ssz);
  if (osz < BF_HASH_LENGTH || ssz < sizeof (struct BF_buffer))
    {
      XV_ASSERT ("C04,C05", bf_calls == 0 && errno == ERANGE && out[k] == old, "too-small output or scratch: ERANGE, nothing computed, nothing written");
      XV_CANARY ("erange");
    }
  else
    {
      XV_ASSERT ("C01,C11", bf_calls >= 1 && bf_key[0] == (const char *) key && bf_set[0] == (const char *) s && bf_min[0] == 16
                 && bf_out[0] == ((struct BF_buffer *) scratch)->re_output && bf_data[0] == &((struct BF_buffer *) scratch)->data,
                 "the caller's phrase and setting are hashed into the scratch area with minimum cost 2^4");
      if (!bf_ok[0])
        {
          XV_ASSERT ("C05", bf_calls == 1 && errno == EINVAL && out[k] == old, "a rejected setting: errno kept from BF_crypt, output untouched, no self-test");
          XV_CANARY ("rejected");
        }
      else
        {
          XV_ASSERT ("C09", bf_calls == 2 && bf_data[1] == bf_data[0] && bf_min[1] == 1 && bf_out[1] != bf_out[0],
                     "the self-test runs over the same BF_data (overwriting the key schedule of the real hash) into a different output buffer");
          bool copied = out[k] == bf_out0_k;
          if (errno == e0)
            {
              XV_ASSERT ("C05,C03", copied, "success: errno restored and the hash copied out (arbitrary byte)");
              XV_CANARY ("success");
            }
          else
            {
              XV_ASSERT ("C05", errno == EINVAL && out[k] == old, "self-test failure: EINVAL and the output untouched");
              XV_CANARY ("self-test failed");
            }
        }
    }
}
#endif

#ifdef B_reject
/* The rejecting side of BF_crypt, without any abstraction: for every setting
   outside the documented shape (and every cost below the minimum) the
   function returns false with EINVAL, reads nothing beyond the string's NUL,
   writes nothing to the output, and never reaches the Eksblowfish loops
   (their unwinding assertions, at bound 1, are obligations of this job).  */
void harness (void)
{
  XV_IN (size_t, n, nondet_size);
  XV_ASSUME (n <= 64);
  unsigned char *s = malloc (n + 1);
  unsigned char *key = malloc (1);
  unsigned char *out = malloc (BF_HASH_LENGTH);
  struct BF_data *data = malloc (sizeof (struct BF_data));
  XV_ASSUME (s != NULL && key != NULL && out != NULL && data != NULL);
  bool nz = true;
  for (size_t i = 0; i < 64; i++)   /* XV_UNWIND 64 */
    if (i < n && s[i] == 0) nz = false;
  XV_ASSUME (nz);
  s[n] = 0; key[0] = 0;
  XV_IN (unsigned, min, nondet_uint);
  XV_ASSUME (min == 1 || min == 16);
  XV_IN (size_t, k, nondet_size);
  XV_ASSUME (k < BF_HASH_LENGTH);
  unsigned char old = out[k];
  errno = 0;
  bool hdr = n >= 7 && s[0] == '$' && s[1] == '2' && (s[2] == 'a' || s[2] == 'b' || s[2] == 'x' || s[2] == 'y')
             && s[3] == '$' && s[4] >= '0' && s[4] <= '9' && s[5] >= '0' && s[5] <= '9' && s[6] == '$';
  unsigned cost = hdr ? (unsigned) (s[4] - '0') * 10 + (unsigned) (s[5] - '0') : 0;
  bool salt_ok = n >= 29;
  for (size_t i = 7; i < 29; i++)   /* XV_UNWIND 30 */
    if (i < n && !in_bf64 (s[i])) salt_ok = false;
  bool spec_ok = hdr && cost <= 31 && (cost >= 4 || min == 1) && salt_ok;
  XV_ASSUME (!spec_ok);
  bool ok = BF_crypt ((const char *) key, (const char *) s, out, data, min);
  XV_ASSERT ("C05,C11", !ok, "a setting outside $2[abxy]$NN$<22 alphabet characters> (NN 04..31; 00..31 for the self-test) is rejected");
  XV_ASSERT ("C05", errno == EINVAL, "rejected settings set EINVAL");
  XV_ASSERT ("C05,C04", out[k] == old, "rejected settings leave the output untouched (arbitrary byte)");
  XV_CANARY ("rejected");
  if (hdr && cost > 31) XV_CANARY ("cost above 31");
  if (hdr && cost < 4 && min == 16) XV_CANARY ("cost below 4");
  if (hdr && n < 29) XV_CANARY ("short salt");
}
#endif

/* Enforcement of the contracts of the small helpers of the API layer against
   their real bodies: check_badsalt_chars, get_hashfn (+ the hash_algorithms
   table), get_internal (static in lib/crypt.c, included as text) and
   make_failure_token.  The stub side of the first three is
   contracts/crypt_c_stubs.h and contracts/get_internal_stub.c.  */
#include "crypt-port.h"
#include "xv.h"
#include "models/strings.h"

size_t g_set_size;   /* ghost length of the setting, for the loop invariant */
size_t g_bk;         /* arbitrary-but-fixed index */

#include "lib/crypt.c"
#include "spec/prefix.h"
#include "contracts/crypt_c_stubs.h"

#if defined U_badsalt || defined U_hashfn
/* a caller string of any length; the first 512 characters have no NUL */
#define SETUP_LEN                                                            \
  XV_IN (size_t, set_len, nondet_size);                                      \
  XV_ASSUME (set_len <= XV_MAXOBJ)
#define SETUP_SETTING                                                        \
  set[set_len] = 0;                                                          \
  bool strs_ok = true, all_safe = true;                                      \
  for (size_t k = 0; k < 512; k++)   /* XV_UNWIND 512 */                     \
    {                                                                        \
      if (k < set_len && set[k] == 0) strs_ok = false;                       \
      if (k < set_len && !xv_passwd_safe (set[k])) all_safe = false;         \
    }                                                                        \
  XV_ASSUME (strs_ok);                                                       \
  xv_str_reset ();                                                           \
  xv_str_register ((const char *) set, set_len);                             \
  g_set_size = set_len;                                                      \
  XV_IN (size_t, bk, nondet_size);                                           \
  XV_ASSUME (bk < set_len);                                                  \
  g_bk = bk;                                                                 \
  xv_ghost_idx[0] = bk; xv_ghost_idx[1] = (size_t) -1
#endif

#ifdef U_badsalt
void harness (void)
{
  SETUP_LEN;
  XV_IN_BYTES (set, setting, set_len, 1);
  SETUP_SETTING;   /* XV_UNWIND 512 */
  int r = check_badsalt_chars ((const char *) set);
  XV_ASSERT ("C05,C18", r != 0 || xv_passwd_safe (set[bk]),
             "result 0 only if every byte is printable ASCII and none of : ; * ! \\ (arbitrary index)");
  XV_ASSERT ("C10,C18", !(set_len < 512 && all_safe) || r == 0,
             "a setting (shorter than 512) made only of acceptable bytes is accepted");
  if (r) XV_CANARY ("rejecting path"); else XV_CANARY ("accepting path");
}
#endif

#ifdef U_hashfn
void harness (void)
{
  SETUP_LEN;
  XV_IN_BYTES (set, setting, set_len, 1);
  SETUP_SETTING;   /* XV_UNWIND 512 */
  const struct hashfn *h = get_hashfn ((const char *) set);
  int want = spec_method_of_prefix (set, set_len);
  XV_ASSERT ("C05,C10,C18,C19", (h == 0) == (want < 0), "NULL exactly when no enabled method's prefix matches");
  if (h)
    {
      XV_ASSERT ("C04", h >= hash_algorithms && h < hash_algorithms + XV_NTABLE, "result is an entry of the table");
      XV_ASSERT ("C05,C07,C10,C18,C19", xv_entry_method (h) == want, "the entry dispatches to the method the prefix selects");
      XV_CANARY ("found path");
    }
  else
    XV_CANARY ("not found path");
}
#endif

#ifdef U_table
/* every entry of hash_algorithms is coherent: crypt and gensalt entry points
   of the same method, the method's own prefix, the entropy size of
   hashes.conf, and the strong flag of crypt(5) */
extern void gensalt_sha1crypt_rn (), gensalt_bcrypt_a_rn ();
static int xv_gensalt_method (const struct hashfn *h)
{
#define G(fn, id) if (h->gensalt == fn) return id;
#if INCLUDE_sha1crypt
  G (gensalt_sha1crypt_rn, M_SHA1CRYPT)
#endif
#if INCLUDE_bcrypt_a
  G (gensalt_bcrypt_a_rn, M_BCRYPT_A)
#endif
#if INCLUDE_bcrypt
  G (gensalt_bcrypt_rn, M_BCRYPT_B)
#endif
#if INCLUDE_bcrypt_x
  G (gensalt_bcrypt_x_rn, M_BCRYPT_X)
#endif
#if INCLUDE_bcrypt_y
  G (gensalt_bcrypt_y_rn, M_BCRYPT_Y)
#endif
#if INCLUDE_gost_yescrypt
  G (gensalt_gost_yescrypt_rn, M_GOST_YESCRYPT)
#endif
#if INCLUDE_sunmd5
  G (gensalt_sunmd5_rn, M_SUNMD5)
#endif
#if INCLUDE_md5crypt
  G (gensalt_md5crypt_rn, M_MD5CRYPT)
#endif
#if INCLUDE_nt
  G (gensalt_nt_rn, M_NT)
#endif
#if INCLUDE_sha256crypt
  G (gensalt_sha256crypt_rn, M_SHA256CRYPT)
#endif
#if INCLUDE_sha512crypt
  G (gensalt_sha512crypt_rn, M_SHA512CRYPT)
#endif
#if INCLUDE_scrypt
  G (gensalt_scrypt_rn, M_SCRYPT)
#endif
#if INCLUDE_yescrypt
  G (gensalt_yescrypt_rn, M_YESCRYPT)
#endif
#if INCLUDE_bsdicrypt
  G (gensalt_bsdicrypt_rn, M_BSDICRYPT)
#endif
#if INCLUDE_bigcrypt
  G (gensalt_bigcrypt_rn, M_BIGCRYPT)
#endif
#if INCLUDE_descrypt
  G (gensalt_descrypt_rn, M_DESCRYPT)
#endif
  return -1;
}

/* random bytes crypt_gensalt draws for each method (crypt(5) salt sizes;
   hashes.conf nrbytes column) */
static const unsigned char spec_nrbytes[M_COUNT] =
  { [M_SHA1CRYPT] = 20, [M_BCRYPT_A] = 16, [M_BCRYPT_B] = 16, [M_BCRYPT_X] = 16, [M_BCRYPT_Y] = 16,
    [M_GOST_YESCRYPT] = 16, [M_SUNMD5] = 8, [M_MD5CRYPT] = 9, [M_NT] = 1, [M_SHA256CRYPT] = 15,
    [M_SHA512CRYPT] = 15, [M_SCRYPT] = 16, [M_YESCRYPT] = 16, [M_BSDICRYPT] = 3, [M_BIGCRYPT] = 2, [M_DESCRYPT] = 2 };

void harness (void)
{
  XV_IN (size_t, i, nondet_size);
  XV_ASSUME (i < XV_NTABLE);
  const struct hashfn *h = &hash_algorithms[i];
  int m = xv_entry_method (h);
  XV_ASSERT ("C10,C18,C19", m >= 0 && xv_gensalt_method (h) == m, "crypt and gensalt entry points belong to the same, enabled method");
  size_t plen = 0;
  while (plen < 8 && h->prefix[plen]) plen++;     /* XV_UNWIND 8 */
  XV_ASSERT ("C04", h->plen == plen, "plen is the length of the prefix");
  XV_ASSERT ("C18,C19", (plen == 0 && (m == M_BIGCRYPT || m == M_DESCRYPT))
             || spec_method_of_prefix ((const unsigned char *) h->prefix, plen) == m,
             "the entry's prefix is the prefix crypt(5) documents for its method");
  XV_ASSERT ("C18", (h->is_strong != 0) == spec_method_is_strong (m), "strong flag matches crypt(5)'s classification");
  XV_ASSERT ("C12", h->nrbytes == spec_nrbytes[m] && h->nrbytes > 0, "entropy drawn for the method");
  XV_ASSERT ("C04", hash_algorithms[XV_NTABLE].prefix == 0, "table is terminated");
  /* lemma over the two specifications (no library code): every character the
     DES-family generators can emit (the radix-64 alphabet) is a DES salt
     character of the prefix specification, so their settings select DES */
  {
    static const unsigned char b64[65] = "./0123456789ABCDEFGHIJKLMNOPQRSTUVWXYZabcdefghijklmnopqrstuvwxyz";
    XV_IN (unsigned, v, nondet_uint);
    XV_ASSUME (v < 64);
    XV_ASSERT ("C10", spec_des_salt_char (b64[v]), "every radix-64 character is a DES salt character in the prefix specification");
  }
  XV_CANARY ("table entry");
}
#endif

#ifdef U_get_internal
#ifndef DATA_OFF
#define DATA_OFF 16
#endif
struct xv_blk { unsigned char lo[DATA_OFF]; struct crypt_data d; unsigned char hi[16]; };
void harness (void)
{
  struct xv_blk *blk = malloc (sizeof (struct xv_blk));
  XV_ASSUME (blk != NULL);
  struct crypt_data *data = &blk->d;
  struct crypt_internal *ci = get_internal (data);
  size_t off = XV_PTR_OFF (data->internal);
  size_t pad = (16 - (off & 15)) & 15;
  XV_ASSERT ("C04,C07", (char *) ci == data->internal + pad,
             "result is data->internal advanced to the next multiple of 16 (equal to the contract stub's result)");
  XV_ASSERT ("C04", XV_SAME_OBJ (ci, data) && XV_PTR_OFF (ci) >= off
             && XV_PTR_OFF (ci) + sizeof (struct crypt_internal) <= off + sizeof data->internal,
             "a struct crypt_internal at the result fits inside data->internal");
  XV_ASSERT ("C04", sizeof (struct crypt_internal) == ALG_SPECIFIC_SIZE && XV_PTR_OFF (ci) % 16 == 0, "aligned scratch of ALG_SPECIFIC_SIZE bytes");
  XV_CANARY ("get_internal");
}
#endif

#ifdef U_failure_token
void harness (void)
{
  XV_IN (int, size, nondet_int);
  XV_IN (_Bool, setting_null, nondet_bool);
  XV_IN (size_t, set_len, nondet_size);
  XV_ASSUME (set_len <= 8);
  XV_IN_BYTES (set, setting, set_len, 1);
  set[set_len] = 0;
  /* the output area: 8 bytes of arbitrary content, of which `size` belong to the caller */
  unsigned char *out = malloc (8);
  XV_ASSUME (out != NULL);
  unsigned char o[8];
  for (int i = 0; i < 8; i++) o[i] = out[i];
  make_failure_token (setting_null ? 0 : (const char *) set, (char *) out, size);
  bool star0 = !setting_null && set[0] == '*' && (set_len >= 2 && set[1] == '0');
  XV_IN (size_t, k, nondet_size);
  XV_ASSUME (k < 8);
  if (size >= 3)
    {
      XV_ASSERT ("C05,C13", out[0] == '*' && out[1] == (star0 ? '1' : '0') && out[2] == 0,
                 "the token is *0, or *1 when the setting begins with *0");
      XV_ASSERT ("C04,C13", k < 3 || out[k] == o[k], "only the first three bytes are written");
      XV_ASSERT ("C05", setting_null || set_len < 2 || !(set[0] == out[0] && set[1] == out[1] && set_len == 2),
                 "the token differs from the setting");
      XV_CANARY ("full token");
    }
  else if (size == 2)
    XV_ASSERT ("C05,C13,C04", out[0] == '*' && out[1] == 0 && (k < 2 || out[k] == o[k]), "size 2: the token is *");
  else if (size == 1)
    XV_ASSERT ("C05,C13,C04", out[0] == 0 && (k < 1 || out[k] == o[k]), "size 1: the empty string");
  else
    {
      XV_ASSERT ("C13,C04", out[k] == o[k], "sizes <= 0: nothing is written");
      XV_CANARY ("non-positive size");
    }
}
#endif

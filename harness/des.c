/* C17: the DES core (lib/alg-des.c with the generated tables of
   lib/alg-des-tables.c) against the bit-level transcription of FIPS 46-3 in
   spec/des.h, for every key, block, salt and both directions.  */
#include "crypt-port.h"
#include "xv.h"
#include "alg-des.h"
#include "spec/des.h"

#ifdef D_set_key
void harness (void)
{
  unsigned char key[8];
  uint64_t k = 0;
  for (int i = 0; i < 8; i++)
    {
      key[i] = nondet_uchar ();
      k = (k << 8) | key[i];
    }
  struct des_ctx ctx;
  des_set_key (&ctx, key);
  uint64_t K[16];
  spec_des_keys (k, K);
  XV_IN (unsigned, r, nondet_uint);
  XV_ASSUME (r < 16);
  XV_ASSERT ("C17,C02", ctx.keysl[r] == (uint32_t) (K[r] >> 24) && ctx.keysr[r] == (uint32_t) (K[r] & 0xffffff),
             "round key r is FIPS 46-3's K_(r+1) (PC-1, shift schedule, PC-2) for every 64-bit key");
  /* parity bits ignored: flipping the low bit of any key byte changes nothing */
  XV_IN (unsigned, pb, nondet_uint);
  XV_ASSUME (pb < 8);
  unsigned char key2[8];
  for (int i = 0; i < 8; i++) key2[i] = key[i];
  key2[pb] ^= 1;
  struct des_ctx ctx2;
  des_set_key (&ctx2, key2);
  XV_ASSERT ("C17", ctx2.keysl[r] == ctx.keysl[r] && ctx2.keysr[r] == ctx.keysr[r], "key parity bits are ignored");
  XV_CANARY ("set_key");
}
#endif

#ifdef D_set_salt
void harness (void)
{
  XV_IN (uint32_t, salt, nondet_u32);
  struct des_ctx ctx;
  des_set_salt (&ctx, salt);
  uint32_t m = 0;
  for (int i = 0; i < 24; i++)
    if ((salt >> i) & 1u) m |= 1u << (23 - i);
  XV_ASSERT ("C17,C02", ctx.saltbits == m, "saltbits is the bit-reversed low 24 bits of the salt");
  XV_CANARY ("set_salt");
}
#endif

#ifdef D_crypt_block
/* function contract of des_crypt_block, attached to a separate declaration
   (no edit of /repo): frame = the 8 output bytes */
void des_crypt_block (struct des_ctx *restrict ctx, unsigned char *out, const unsigned char *in,
                      unsigned int count, bool decrypt)
__CPROVER_assigns (__CPROVER_object_whole (out));   /* the harness supplies the (arbitrary) argument values */

/* ghost: the specification's state after each round, computed by the harness
   for the same symbolic input; mentioned by the round loop's invariant */
uint32_t G_L[17], G_R[17];

void harness (void)
{
  struct des_ctx ctx;                       /* arbitrary round keys: 24 bits per half */
  uint64_t K[16];
  for (int i = 0; i < 16; i++)
    {
      ctx.keysl[i] &= 0xffffff; ctx.keysr[i] &= 0xffffff;
      K[i] = ((uint64_t) ctx.keysl[i] << 24) | ctx.keysr[i];
    }
  XV_IN (uint32_t, salt, nondet_u32);
#ifdef SALT_ZERO
  XV_ASSUME (salt == 0);
#endif
  salt &= 0xffffff;
  uint32_t m = 0;
  for (int i = 0; i < 24; i++)
    if ((salt >> i) & 1u) m |= 1u << (23 - i);
  ctx.saltbits = m;
  XV_IN (_Bool, decrypt, nondet_bool);
  unsigned char in[8], out[8];
  uint64_t b = 0;
  for (int i = 0; i < 8; i++)
    {
      in[i] = nondet_uchar ();
      b = (b << 8) | in[i];
    }
  spec_des_ip (b, &G_L[0], &G_R[0]);
  for (int r = 0; r < 16; r++)
    {
      G_L[r + 1] = G_R[r];
      G_R[r + 1] = G_L[r] ^ spec_des_f (G_R[r], K[decrypt ? 15 - r : r], salt);
    }
  des_crypt_block (&ctx, out, in, 1, decrypt);
  uint64_t o = 0;
  for (int i = 0; i < 8; i++) o = (o << 8) | out[i];
  XV_ASSERT ("C17,C02", o == spec_des_fp (G_R[16], G_L[16]),
             "des_crypt_block (count 1) is IP, 16 salted FIPS rounds, exchange, FP: FIPS 46-3 DES when the salt is 0");
  XV_CANARY ("crypt_block");
}
#endif

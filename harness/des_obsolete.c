/* C17: the obsolete setkey/encrypt and setkey_r/encrypt_r interfaces
   (lib/crypt-des-obsolete.c; compiled as for the shared library: -DPIC).
   Real bodies: pack_bits, unpack_bits, do_setkey_r, do_encrypt_r and the four
   entry points.  The DES primitives are replaced by their contracts
   (contracts/des_stubs.h; enforced against FIPS 46-3 by jobs des_*), and
   get_des_ctx's integer round trip by its contract (aligned pointer inside
   data->internal, like get_internal).

   Obligations: the key handed to des_set_key is the 64 low bits of key[],
   most significant bit of each byte first, with salt 0; the block handed to
   des_crypt_block is the packed block, count 1, direction = (edflag != 0);
   the 64 result bytes are the bits of the cipher's output, each 0 or 1; the
   static variants do the same on their own static context.  */
#include "crypt-port.h"
#include "xv.h"
#include "contracts/des_stubs.h"
#include "lib/crypt-des-obsolete.c"

#ifndef XV_NATIVE
struct des_ctx *get_des_ctx_stub (struct crypt_data *data)
{
  size_t off = XV_PTR_OFF (data->internal);
  size_t pad = (4 - (off & 3)) & 3;          /* alignof (struct des_ctx) == 4 */
  return (struct des_ctx *) (data->internal + pad);
}
#endif

struct xv_blk { unsigned char lo[DATA_OFF]; struct crypt_data d; unsigned char hi[16]; };

void harness (void)
{
  char key[64], block[64];
  for (int i = 0; i < 64; i++)   /* XV_UNWIND 64 */
    { key[i] = nondet_char (); block[i] = nondet_char (); }
  char block0[64];
  for (int i = 0; i < 64; i++) block0[i] = block[i];   /* XV_UNWIND 64 */
  XV_IN (int, edflag, nondet_int);
  XV_IN (unsigned, bi, nondet_uint);       /* arbitrary bit index 0..63 */
  XV_ASSUME (bi < 64);
  xv_des_keys = 0; xv_des_blocks = 0; xv_des_key_set = 0; xv_des_salt_set = 0;
#ifdef REENTRANT
  struct xv_blk *blk = malloc (sizeof (struct xv_blk));
  XV_ASSUME (blk != NULL);
  setkey_r (key, &blk->d);
  const void *ctx_used = xv_des_ctx;
  XV_ASSERT ("C17,C04", XV_SAME_OBJ (ctx_used, &blk->d) && XV_PTR_OFF (ctx_used) >= XV_PTR_OFF (blk->d.internal)
             && XV_PTR_OFF (ctx_used) + sizeof (struct des_ctx) <= XV_PTR_OFF (blk->d.internal) + sizeof blk->d.internal,
             "the key schedule lives inside data->internal");
#else
  setkey (key);
  const void *ctx_used = xv_des_ctx;
#endif
  XV_ASSERT ("C17", xv_des_keys == 1 && xv_des_salt_set && xv_des_last_salt == 0, "one key schedule, salt 0 (plain DES)");
  XV_ASSERT ("C17", ((xv_des_last_key[bi / 8] >> (7 - bi % 8)) & 1) == ((unsigned char) key[bi] & 1),
             "key bit i (most significant first within each byte) is the low bit of key[i]; the other 7 bits of each byte are ignored");
#ifdef REENTRANT
  encrypt_r (block, edflag, &blk->d);
#else
  encrypt (block, edflag);
#endif
  XV_ASSERT ("C17", xv_des_blocks == 1 && xv_des_ctx == ctx_used && xv_des_last_count == 1 && xv_des_last_decrypt == (edflag != 0),
             "one block operation on the same context, one pass, decrypting exactly when edflag is non-zero");
  XV_ASSERT ("C17", ((xv_des_last_in[bi / 8] >> (7 - bi % 8)) & 1) == ((unsigned char) block0[bi] & 1),
             "input bit i is the low bit of block[i]");
  XV_ASSERT ("C17", (unsigned char) block[bi] == ((xv_des_last_out[bi / 8] >> (7 - bi % 8)) & 1),
             "result byte i is bit i of the cipher's output, as 0 or 1");
  XV_CANARY ("obsolete api");
}

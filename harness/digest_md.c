/* C16 (buffering, padding, length encoding for every length and every
   chunking) and C09 (context erased by Final) for MD5 and MD4
   (lib/alg-md5.c, lib/alg-md4.c: same Solar Designer structure).

   The compression function `body` (static) is replaced by a contract stub;
   Init/Update/Final are the real bodies.

   Ghosts: G_MSG is the *padded* message RFC 1321 section 3.1-3.2 prescribes
   for a message of G_LEN bytes (message bytes, 0x80, zeros, 64-bit
   little-endian bit length), G_NBLK counts the blocks compressed so far,
   G_STATE[k] is the chaining value after k blocks (arbitrary but fixed:
   the compression function is a function of its inputs, assumption A-det).

   Representation invariant R (ctx, off), for off <= G_LEN bytes absorbed:
     ctx->lo == off mod 2^29,  ctx->hi == off div 2^29,
     ctx->buffer[0 .. off mod 64) == G_MSG[off - off mod 64 .. off),
     (ctx->a..d) == G_STATE[off div 64],  G_NBLK == off div 64.
   Update (ctx, G_MSG + off, n):  R (ctx, off)  ==>  R (ctx, off + n)
   for arbitrary off, n: by induction over calls the result is independent of
   how the message is split.  Final: R (ctx, G_LEN) ==> the blocks compressed
   are exactly the padding blocks of G_MSG, the digest is the little-endian
   output of G_STATE[total blocks], and *ctx is all zero.  */
#include "crypt-port.h"
#include "xv.h"
#include "models/strings.h"

#ifdef D_md5
#include "lib/alg-md5.c"
#define CTX MD5_CTX
#define D_Init MD5_Init
#define D_Update MD5_Update
#define D_Final MD5_Final
#define U32 MD5_u32plus
#else
#include "lib/alg-md4.c"
#define CTX MD4_CTX
#define D_Init MD4_Init
#define D_Update MD4_Update
#define D_Final MD4_Final
#define U32 MD4_u32plus
#endif

/* memcpy/memset with symbolic length into the 64-byte block buffer: CBMC's
   built-in models are prohibitively expensive for that; these are bounded
   models for this job (every length here is at most one block; a larger one
   fails the obligation) */
#ifndef XV_NATIVE
void *memcpy (void *d, const void *s, size_t n)
{
  __CPROVER_assert (n <= 64, "memcpy model: at most one block");
  unsigned char *dp = d; const unsigned char *sp = s;
  for (size_t i = 0; i < 64; i++)   /* XV_UNWIND 64 */
    if (i < n) dp[i] = sp[i];
  return d;
}
void *memset (void *d, int c, size_t n)
{
  __CPROVER_assert (n <= 160, "memset model: at most the size of the context");
  unsigned char *dp = d;
  for (size_t i = 0; i < 160; i++)   /* XV_UNWIND 160 */
    if (i < n) dp[i] = (unsigned char) c;
  return d;
}
#endif

#ifndef MAXLEN
#define MAXLEN 600
#endif
const unsigned char *G_MSG; size_t G_LEN, G_PADLEN; size_t G_NBLK;
struct st { U32 a, b, c, d; };
/* chaining values: a function of the block index for the fixed message;
   realised as an uninterpreted function of the index */
struct st __CPROVER_uninterpreted_gstate (size_t k);
size_t g_j;    /* arbitrary-but-fixed byte index */

#ifndef XV_NATIVE
const void *body_stub (CTX *ctx, const void *data, unsigned long size)
{
  XV_STUBPRE ("C16", size > 0 && (size & 63) == 0, "compression is applied to whole 64-byte blocks");
  XV_STUBPRE ("C16", 64 * G_NBLK + size <= G_PADLEN, "no more blocks than the padded message has");
  /* the bytes compressed are the next bytes of the padded message */
  if (XV_SAME_OBJ (data, G_MSG))
    XV_STUBPRE ("C16,C03", (const unsigned char *) data == G_MSG + 64 * G_NBLK, "blocks taken from the message are the next ones, in order");
  else
    {
      XV_STUBPRE ("C16", size == 64, "one block at a time from the context buffer");
      /* arbitrary byte g_j of the padded message: if it lies in this block,
         the buffered byte must equal it (every byte of every block is checked
         in some instantiation of g_j) */
      if (g_j >= 64 * G_NBLK && g_j < 64 * G_NBLK + 64)
        XV_STUBPRE ("C16,C03", ((const unsigned char *) data)[g_j - 64 * G_NBLK] == G_MSG[g_j],
                    "the buffered block equals the corresponding block of the padded message (arbitrary byte)");
    }
  struct st in = __CPROVER_uninterpreted_gstate (G_NBLK);
  XV_STUBPRE ("C16", ctx->a == in.a && ctx->b == in.b && ctx->c == in.c && ctx->d == in.d, "chaining value carried from the previous block");
  G_NBLK += size / 64;
  struct st out = __CPROVER_uninterpreted_gstate (G_NBLK);
  ctx->a = out.a; ctx->b = out.b; ctx->c = out.c; ctx->d = out.d;
  return (const unsigned char *) data + size;
}
#endif

static bool R (const CTX *ctx, size_t off)
{
  struct st s = __CPROVER_uninterpreted_gstate (off / 64);
  bool ok = ctx->lo == (off & 0x1fffffff) && ctx->hi == (U32) (off >> 29)
            && ctx->a == s.a && ctx->b == s.b && ctx->c == s.c && ctx->d == s.d && G_NBLK == off / 64;
  for (size_t i = 0; i < 64; i++)   /* XV_UNWIND 64 */
    if (i < (off & 63) && ctx->buffer[i] != G_MSG[off - (off & 63) + i])
      ok = false;
  return ok;
}

static void setup (void)
{
  XV_IN (size_t, len, nondet_size);
  XV_ASSUME (len <= MAXLEN);
  G_LEN = len;
  G_PADLEN = ((len + 8) / 64 + 1) * 64;
  /* constant-size object holding the padded message (cheaper for CBMC than a
     symbolic-size one); bytes beyond G_PADLEN are never addressed by a passing run */
  unsigned char *m = malloc (((MAXLEN + 8) / 64 + 1) * 64);
  XV_ASSUME (m != NULL);
  /* RFC 1321 3.1/3.2 padding, stated at the arbitrary index g_j and at the
     fixed positions the obligations need */
  XV_IN (size_t, j, nondet_size);
  XV_ASSUME (j < G_PADLEN);
  g_j = j;
  G_MSG = m;
}

/* spec value of padded-message byte i (i >= G_LEN) */
static unsigned char pad_byte (size_t i)
{
  if (i == G_LEN) return 0x80;
  if (i < G_PADLEN - 8) return 0;
  unsigned long long bits = (unsigned long long) G_LEN * 8;
  return (unsigned char) (bits >> (8 * (i - (G_PADLEN - 8))));
}

#ifdef U_init
void harness (void)
{
  setup ();
  CTX ctx;
  D_Init (&ctx);
  G_NBLK = 0;
  /* RFC 1321 3.3 / RFC 1320 3.3: the initial chaining value */
  XV_ASSERT ("C16", ctx.a == 0x67452301 && ctx.b == 0xefcdab89 && ctx.c == 0x98badcfe && ctx.d == 0x10325476
             && ctx.lo == 0 && ctx.hi == 0, "Init sets the standard initial value and a zero length");
  XV_CANARY ("init");
}
#endif

#ifdef U_update
void harness (void)
{
  setup ();
  XV_IN (size_t, off, nondet_size);
  XV_IN (size_t, n, nondet_size);
  XV_ASSUME (off <= G_LEN && n <= G_LEN - off);
#ifdef XV_CASE_COND
  XV_ASSUME (XV_CASE_COND);     /* exhaustive split over the buffer fill level off mod 64 */
#endif
  CTX *ctx = malloc (sizeof (CTX));
  XV_ASSUME (ctx != NULL);
  G_NBLK = off / 64;
  XV_ASSUME (R (ctx, off));
  D_Update (ctx, G_MSG + off, n);
  XV_ASSERT ("C16,C03", R (ctx, off + n),
             "Update (msg + off, n) takes the representation of the first off bytes to that of the first off + n bytes, for any off and n: chunking-independent");
  XV_CANARY ("update");
  if ((off & 63) && n >= 64 - (off & 63)) XV_CANARY ("update completes a buffered block");
  if (n >= 128) XV_CANARY ("update with bulk blocks");
}
#endif

#ifdef U_final
void harness (void)
{
  setup ();
  /* the padding region of the ghost message holds the standard's padding */
  unsigned char *m = (unsigned char *) G_MSG;
  size_t j = g_j;
  XV_ASSUME (j < G_LEN || m[j] == pad_byte (j));
  CTX *ctx = malloc (sizeof (CTX));
  unsigned char *out = malloc (16);
  XV_ASSUME (ctx != NULL && out != NULL);
#ifdef XV_CASE_COND
  { size_t off = G_LEN; XV_ASSUME (XV_CASE_COND); }
#endif
  G_NBLK = G_LEN / 64;
  XV_ASSUME (R (ctx, G_LEN));
  D_Final (out, ctx);
  XV_ASSERT ("C16", G_NBLK == G_PADLEN / 64, "Final compresses exactly the padding blocks of the standard (one or two)");
  struct st s = __CPROVER_uninterpreted_gstate (G_PADLEN / 64);
  XV_ASSERT ("C16", out[0] == (unsigned char) s.a && out[1] == (unsigned char) (s.a >> 8) && out[2] == (unsigned char) (s.a >> 16) && out[3] == (unsigned char) (s.a >> 24)
             && out[4] == (unsigned char) s.b && out[7] == (unsigned char) (s.b >> 24)
             && out[8] == (unsigned char) s.c && out[11] == (unsigned char) (s.c >> 24)
             && out[12] == (unsigned char) s.d && out[13] == (unsigned char) (s.d >> 8) && out[14] == (unsigned char) (s.d >> 16) && out[15] == (unsigned char) (s.d >> 24),
             "the digest is the final chaining value, little-endian words A B C D");
  bool zero = true;
  const unsigned char *cb = (const unsigned char *) ctx;
  for (size_t i = 0; i < sizeof (CTX); i++)   /* XV_UNWIND 160 */
    if (cb[i] != 0) zero = false;
  XV_ASSERT ("C09", zero, "Final erases the whole context");
  XV_CANARY ("final");
  if (G_PADLEN - G_LEN > 64) XV_CANARY ("final with two padding blocks");
}
#endif

/* C16 / C09 for SHA-1 (lib/alg-sha1.c; RFC 3174 / FIPS 180-4 5.1.1, 5.3.1,
   6.1.2).  Two layers, modular:

   U_update  sha1_process_bytes (real) over the compression function by
             contract: R (ctx, off) ==> R (ctx, off + n) for every off, n
             (chunking independence), the bulk loop closed by a loop contract.
   U_final   sha1_finish_ctx (real) over sha1_process_bytes BY ITS CONTRACT
             (the clauses U_update discharges): the bytes it feeds are exactly
             the standard's padding of the message absorbed so far (0x80,
             zeros up to 56 mod 64 - the while loop is closed by a loop
             contract - and the 64-bit big-endian bit length), the digest is
             the final chaining value big-endian, and both the context and
             the local length buffer are erased.

   R (ctx, off): count == 8 * off (64 bits in two words), state ==
   G_STATE[off div 64], buffer[0 .. off mod 64) == G_MSG[off - off mod 64 ..
   off), G_NBLK == off div 64.  */
#include "crypt-port.h"
#include "xv.h"
#include "models/strings.h"
#include "lib/alg-sha1.c"

#ifndef MAXLEN
#define MAXLEN 200
#endif
#define MAXBLK ((MAXLEN + 8) / 64 + 1)
const unsigned char *G_MSG; size_t G_LEN, G_PADLEN; size_t G_NBLK;
uint32_t G_STATE[MAXBLK + 1][5];   /* never written: arbitrary but fixed */
size_t g_j, g_off0;

static void setup (void)
{
  XV_IN (size_t, len, nondet_size);
  XV_ASSUME (len <= MAXLEN);
  G_LEN = len;
  G_PADLEN = ((len + 8) / 64 + 1) * 64;
  unsigned char *m = malloc (MAXBLK * 64);
  XV_ASSUME (m != NULL);
  XV_IN (size_t, j, nondet_size);
  XV_ASSUME (j < G_PADLEN);
  g_j = j;
  G_MSG = m;
}
static unsigned char pad_byte (size_t i)
{
  if (i == G_LEN) return 0x80;
  if (i < G_PADLEN - 8) return 0;
  unsigned long long bits = (unsigned long long) G_LEN * 8;
  return (unsigned char) (bits >> (8 * (G_PADLEN - 1 - i)));
}

#if defined U_init
void harness (void)
{
  struct sha1_ctx ctx;
  sha1_init_ctx (&ctx);
  XV_ASSERT ("C16", ctx.state[0] == 0x67452301 && ctx.state[1] == 0xefcdab89 && ctx.state[2] == 0x98badcfe && ctx.state[3] == 0x10325476
             && ctx.state[4] == 0xc3d2e1f0 && ctx.count[0] == 0 && ctx.count[1] == 0, "Init sets H(0) of FIPS 180-4 5.3.1 and a zero length");
  XV_CANARY ("init");
}
#endif

#if defined U_update
#ifndef XV_NATIVE
void *memcpy (void *d, const void *s, size_t n)
{
  __CPROVER_assert (n <= 64, "memcpy model: at most one block");
  unsigned char *dp = d; const unsigned char *sp = s;
  for (size_t i = 0; i < 64; i++)   /* XV_UNWIND 64 */
    if (i < n) dp[i] = sp[i];
  return d;
}
void transform_stub (uint32_t state[5], const uint8_t block[64])
{
  XV_STUBPRE ("C16", 64 * G_NBLK + 64 <= G_PADLEN, "no more blocks than the padded message has");
  if (XV_SAME_OBJ (block, G_MSG))
    XV_STUBPRE ("C16,C03", block == G_MSG + 64 * G_NBLK, "blocks taken from the message are the next ones, in order");
  else if (g_j >= 64 * G_NBLK && g_j < 64 * G_NBLK + 64)
    XV_STUBPRE ("C16,C03", block[g_j - 64 * G_NBLK] == G_MSG[g_j],
                "the buffered block equals the corresponding block of the padded message (arbitrary byte)");
  XV_STUBPRE ("C16", state[0] == G_STATE[G_NBLK][0] && state[1] == G_STATE[G_NBLK][1] && state[2] == G_STATE[G_NBLK][2]
              && state[3] == G_STATE[G_NBLK][3] && state[4] == G_STATE[G_NBLK][4], "chaining value carried from the previous block");
  G_NBLK += 1;
  state[0] = G_STATE[G_NBLK][0]; state[1] = G_STATE[G_NBLK][1]; state[2] = G_STATE[G_NBLK][2]; state[3] = G_STATE[G_NBLK][3]; state[4] = G_STATE[G_NBLK][4];
}
#endif
static bool R (const struct sha1_ctx *ctx, size_t off)
{
  size_t b = off / 64;
  bool ok = ctx->count[0] == (uint32_t) (off << 3) && ctx->count[1] == (uint32_t) (off >> 29) && G_NBLK == b;
  for (int k = 0; k < 5; k++)   /* XV_UNWIND 5 */
    if (ctx->state[k] != G_STATE[b][k]) ok = false;
  for (size_t i = 0; i < 64; i++)   /* XV_UNWIND 64 */
    if (i < (off & 63) && ctx->buffer[i] != G_MSG[off - (off & 63) + i])
      ok = false;
  return ok;
}
void harness (void)
{
  setup ();
  XV_IN (size_t, off, nondet_size);
  XV_IN (size_t, n, nondet_size);
  XV_ASSUME (off <= G_LEN && n <= G_LEN - off);
#ifdef XV_CASE_COND
  XV_ASSUME (XV_CASE_COND);
#endif
  struct sha1_ctx *ctx = malloc (sizeof (struct sha1_ctx));
  XV_ASSUME (ctx != NULL);
  G_NBLK = off / 64;
  g_off0 = off;
  XV_ASSUME (R (ctx, off));
  sha1_process_bytes (G_MSG + off, ctx, n);
  XV_ASSERT ("C16,C03", R (ctx, off + n),
             "process_bytes (msg + off, n) takes the representation of the first off bytes to that of the first off + n bytes, for any off and n: chunking-independent");
  XV_CANARY ("update");
  if ((off & 63) && n >= 64 - (off & 63)) XV_CANARY ("update completes a buffered block");
  if (n >= 192) XV_CANARY ("update with bulk blocks");
}
#endif

#if defined U_final
/* sha1_process_bytes by contract (enforced by U_update); abstract position
   g_off = number of bytes of the padded message absorbed so far */
size_t g_off, g_k; unsigned char g_bufk; bool g_feed_ok = true;
#define ND4(d, o) (d)[(o)] = nondet_uchar (); (d)[(o) + 1] = nondet_uchar (); (d)[(o) + 2] = nondet_uchar (); (d)[(o) + 3] = nondet_uchar ()
#define ND16(d, o) ND4 (d, o); ND4 (d, (o) + 4); ND4 (d, (o) + 8); ND4 (d, (o) + 12)
void process_stub (const void *buffer, struct sha1_ctx *ctx, size_t size)
{
  const unsigned char *b = buffer;
  XV_STUBPRE ("C16", size >= 1 && size <= 8 && g_off + size <= G_PADLEN, "Final feeds no more than the standard's padding");
  XV_STUBPRE ("C04", XV_R_OK (buffer, size), "process_bytes: size readable bytes");
  /* the bytes fed are the next bytes of the padded message (arbitrary index g_j) */
  if (g_j >= g_off && g_j < g_off + size)
    XV_STUBPRE ("C16", b[g_j - g_off] == G_MSG[g_j], "the bytes Final feeds are the standard's padding of the absorbed message (arbitrary byte)");
  /* R (ctx, g_off) in the fields this caller can see */
  XV_STUBPRE ("C16", ctx->count[0] == (uint32_t) (g_off << 3) && ctx->count[1] == 0
              && ctx->state[0] == G_STATE[g_off >> 6][0] && ctx->state[1] == G_STATE[g_off >> 6][1] && ctx->state[2] == G_STATE[g_off >> 6][2]
              && ctx->state[3] == G_STATE[g_off >> 6][3] && ctx->state[4] == G_STATE[g_off >> 6][4] && ctx->buffer[g_k] == g_bufk,
              "the context is as the previous call left it (count, chaining value, arbitrary buffer byte)");
  g_off += size;
  ctx->count[0] = (uint32_t) (g_off << 3);
  ctx->state[0] = G_STATE[g_off >> 6][0]; ctx->state[1] = G_STATE[g_off >> 6][1]; ctx->state[2] = G_STATE[g_off >> 6][2];
  ctx->state[3] = G_STATE[g_off >> 6][3]; ctx->state[4] = G_STATE[g_off >> 6][4];
  ND16 (ctx->buffer, 0); ND16 (ctx->buffer, 16); ND16 (ctx->buffer, 32); ND16 (ctx->buffer, 48);
  g_bufk = ctx->buffer[g_k];
}
void harness (void)
{
  setup ();
  unsigned char *m = (unsigned char *) G_MSG;
  size_t j = g_j;
  XV_ASSUME (j < G_LEN || m[j] == pad_byte (j));
  struct sha1_ctx *ctx = malloc (sizeof (struct sha1_ctx));
  unsigned char *out = malloc (20);
  XV_ASSUME (ctx != NULL && out != NULL);
  XV_IN (size_t, k, nondet_size);
  XV_ASSUME (k < 64);
  g_k = k; g_off = G_LEN;
  XV_ASSUME (ctx->count[0] == (uint32_t) (G_LEN << 3) && ctx->count[1] == 0);
  for (int w = 0; w < 5; w++) ctx->state[w] = G_STATE[G_LEN >> 6][w];   /* XV_UNWIND 5 */
  g_bufk = ctx->buffer[k];
  xv_bzero_n = 0; xv_event_seq = 1;
  void *r = sha1_finish_ctx (ctx, out);
  XV_ASSERT ("C16", g_off == G_PADLEN, "Final feeds exactly the standard's padding: the message ends on a block boundary with the 64-bit length in the last 8 bytes");
  XV_IN (size_t, w, nondet_size);
  XV_ASSUME (w < 5);
  uint32_t s = G_STATE[G_PADLEN >> 6][w];
  XV_ASSERT ("C16", r == out && out[4 * w] == (unsigned char) (s >> 24) && out[4 * w + 1] == (unsigned char) (s >> 16)
             && out[4 * w + 2] == (unsigned char) (s >> 8) && out[4 * w + 3] == (unsigned char) s,
             "the digest is the final chaining value, big-endian words H0..H4 (arbitrary word)");
  XV_ASSERT ("C09", xv_bzero_n == 2 && xv_bzeroed_after (ctx, sizeof (struct sha1_ctx), 0) && xv_bzero_log[1].n == 8,
             "Final erases the whole context and its local copy of the length");
  XV_CANARY ("final");
  if (G_PADLEN - G_LEN > 64) XV_CANARY ("final with two padding blocks");
}
#endif

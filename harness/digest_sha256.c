/* C16 for SHA-256 (lib/alg-sha256.c): buffering, padding and length encoding
   for every length up to MAXLEN and every chunking; FIPS 180-4 section 5.1.1
   (padding), 5.3.3 (initial value), 6.2.2 (digest = final chaining value,
   big-endian words).

   The compression function SHA256_Transform (static) is replaced by a
   contract stub; SHA256_Init, _SHA256_Update, SHA256_Pad, _SHA256_Final are
   the real bodies.  Ghosts as in digest_md.c: G_MSG is the padded message,
   G_NBLK the number of blocks compressed so far, G_STATE[k] the chaining
   value after k blocks (arbitrary but fixed: assumption A-det).

   Representation invariant R (ctx, off), for off <= G_LEN bytes absorbed:
     ctx->count == 8 * off,  ctx->buf[0 .. off mod 64) == G_MSG[off - off mod 64 .. off),
     ctx->state == G_STATE[off div 64],  G_NBLK == off div 64.
   The bulk loop of _SHA256_Update is closed by a loop contract.  */
#include "crypt-port.h"
#include "xv.h"
#include "models/strings.h"
#include "lib/alg-sha256.c"

#ifndef XV_NATIVE
void *memcpy (void *d, const void *s, size_t n)
{
  __CPROVER_assert (n <= 64, "memcpy model: at most one block");
  unsigned char *dp = d; const unsigned char *sp = s;
  for (size_t i = 0; i < 64; i++)   /* XV_UNWIND 64 */
    if (i < n) dp[i] = sp[i];
  return d;
}
void *memset (void *d, int c, size_t n)
{
  __CPROVER_assert (n <= 64, "memset model: at most one block");
  unsigned char *dp = d;
  for (size_t i = 0; i < 64; i++)   /* XV_UNWIND 64 */
    if (i < n) dp[i] = (unsigned char) c;
  return d;
}
#endif

#ifndef MAXLEN
#define MAXLEN 600
#endif
#define MAXBLK ((MAXLEN + 8) / 64 + 1)
const unsigned char *G_MSG; size_t G_LEN, G_PADLEN; size_t G_NBLK;
uint32_t G_STATE[MAXBLK + 1][8];   /* never written: arbitrary but fixed */
size_t g_j;
size_t g_end;                      /* Update: off + n */

#ifndef XV_NATIVE
void transform_stub (uint32_t state[8], const uint8_t block[64], uint32_t W[64], uint32_t S[8])
{
  XV_STUBPRE ("C04", XV_W_OK (W, 256) && XV_W_OK (S, 32), "the message schedule (64 words) and working state (8 words) are writable scratch");
  XV_STUBPRE ("C16", 64 * G_NBLK + 64 <= G_PADLEN, "no more blocks than the padded message has");
  if (XV_SAME_OBJ (block, G_MSG))
    XV_STUBPRE ("C16,C03", block == G_MSG + 64 * G_NBLK, "blocks taken from the message are the next ones, in order");
  else if (g_j >= 64 * G_NBLK && g_j < 64 * G_NBLK + 64)
    XV_STUBPRE ("C16,C03", block[g_j - 64 * G_NBLK] == G_MSG[g_j],
                "the buffered block equals the corresponding block of the padded message (arbitrary byte)");
  XV_STUBPRE ("C16", state[0] == G_STATE[G_NBLK][0] && state[1] == G_STATE[G_NBLK][1] && state[2] == G_STATE[G_NBLK][2] && state[3] == G_STATE[G_NBLK][3]
              && state[4] == G_STATE[G_NBLK][4] && state[5] == G_STATE[G_NBLK][5] && state[6] == G_STATE[G_NBLK][6] && state[7] == G_STATE[G_NBLK][7],
              "chaining value carried from the previous block");
  G_NBLK += 1;
  state[0] = G_STATE[G_NBLK][0]; state[1] = G_STATE[G_NBLK][1]; state[2] = G_STATE[G_NBLK][2]; state[3] = G_STATE[G_NBLK][3];
  state[4] = G_STATE[G_NBLK][4]; state[5] = G_STATE[G_NBLK][5]; state[6] = G_STATE[G_NBLK][6]; state[7] = G_STATE[G_NBLK][7];
}
#endif

static bool R (const SHA256_CTX *ctx, size_t off)
{
  size_t b = off / 64;
  bool ok = ctx->count == (uint64_t) off * 8 && G_NBLK == b;
  for (int k = 0; k < 8; k++)   /* XV_UNWIND 8 */
    if (ctx->state[k] != G_STATE[b][k]) ok = false;
  for (size_t i = 0; i < 64; i++)   /* XV_UNWIND 64 */
    if (i < (off & 63) && ctx->buf[i] != G_MSG[off - (off & 63) + i])
      ok = false;
  return ok;
}

static void setup (void)
{
  XV_IN (size_t, len, nondet_size);
  XV_ASSUME (len <= MAXLEN);
  G_LEN = len;
  G_PADLEN = ((len + 8) / 64 + 1) * 64;
  unsigned char *m = malloc (MAXBLK * 64);
  XV_ASSUME (m != NULL);
  XV_IN (size_t, j, nondet_size);
  XV_ASSUME (j < G_PADLEN);
  g_j = j;
  G_MSG = m;
}

/* FIPS 180-4 5.1.1: byte i >= G_LEN of the padded message */
static unsigned char pad_byte (size_t i)
{
  if (i == G_LEN) return 0x80;
  if (i < G_PADLEN - 8) return 0;
  unsigned long long bits = (unsigned long long) G_LEN * 8;
  return (unsigned char) (bits >> (8 * (G_PADLEN - 1 - i)));   /* big-endian */
}

#ifdef U_init
void harness (void)
{
  setup ();
  SHA256_CTX ctx;
  SHA256_Init (&ctx);
  XV_ASSERT ("C16", ctx.state[0] == 0x6a09e667 && ctx.state[1] == 0xbb67ae85 && ctx.state[2] == 0x3c6ef372 && ctx.state[3] == 0xa54ff53a
             && ctx.state[4] == 0x510e527f && ctx.state[5] == 0x9b05688c && ctx.state[6] == 0x1f83d9ab && ctx.state[7] == 0x5be0cd19
             && ctx.count == 0, "Init sets H(0) of FIPS 180-4 5.3.3 and a zero length");
  XV_CANARY ("init");
}
#endif

#ifdef U_update
void harness (void)
{
  setup ();
  XV_IN (size_t, off, nondet_size);
  XV_IN (size_t, n, nondet_size);
  XV_ASSUME (off <= G_LEN && n <= G_LEN - off);
#ifdef XV_CASE_COND
  XV_ASSUME (XV_CASE_COND);
#endif
  SHA256_CTX *ctx = malloc (sizeof (SHA256_CTX));
  uint32_t *tmp32 = malloc (288);
  XV_ASSUME (ctx != NULL && tmp32 != NULL);
  G_NBLK = off / 64;
  g_end = off + n;
  XV_ASSUME (R (ctx, off));
  _SHA256_Update (ctx, G_MSG + off, n, tmp32);
  XV_ASSERT ("C16,C03", R (ctx, off + n),
             "Update (msg + off, n) takes the representation of the first off bytes to that of the first off + n bytes, for any off and n: chunking-independent");
  XV_CANARY ("update");
  if ((off & 63) && n >= 64 - (off & 63)) XV_CANARY ("update completes a buffered block");
  if (n >= 192) XV_CANARY ("update with bulk blocks");
}
#endif

#ifdef U_final
void harness (void)
{
  setup ();
  unsigned char *m = (unsigned char *) G_MSG;
  size_t j = g_j;
  XV_ASSUME (j < G_LEN || m[j] == pad_byte (j));
  SHA256_CTX *ctx = malloc (sizeof (SHA256_CTX));
  uint32_t *tmp32 = malloc (288);
  unsigned char *out = malloc (32);
  XV_ASSUME (ctx != NULL && out != NULL && tmp32 != NULL);
#ifdef XV_CASE_COND
  { size_t off = G_LEN; XV_ASSUME (XV_CASE_COND); }
#endif
  G_NBLK = G_LEN / 64;
  XV_ASSUME (R (ctx, G_LEN));
  _SHA256_Final (out, ctx, tmp32);
  XV_ASSERT ("C16", G_NBLK == G_PADLEN / 64, "Final compresses exactly the padding blocks of the standard (one or two)");
  XV_IN (size_t, w, nondet_size);
  XV_ASSUME (w < 8);
  uint32_t s = G_STATE[G_PADLEN / 64][w];
  XV_ASSERT ("C16", out[4 * w] == (unsigned char) (s >> 24) && out[4 * w + 1] == (unsigned char) (s >> 16)
             && out[4 * w + 2] == (unsigned char) (s >> 8) && out[4 * w + 3] == (unsigned char) s,
             "the digest is the final chaining value, big-endian words H0..H7 (arbitrary word)");
  XV_CANARY ("final");
  if (G_PADLEN - G_LEN > 64) XV_CANARY ("final with two padding blocks");
}
#endif

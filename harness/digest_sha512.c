/* C16 / C09 for SHA-512 (lib/alg-sha512.c): buffering, padding and length
   encoding for every length up to MAXLEN and every chunking; FIPS 180-4
   sections 5.1.2 (padding: 0x80, zeros, 128-bit big-endian bit length),
   5.3.5 (initial value), 6.4.2 (digest = final chaining value, big-endian
   64-bit words); the context is erased by Final.

   Same construction as digest_sha256.c: SHA512_Transform (static) is replaced
   by a contract stub, SHA512_Init / SHA512_Update / SHA512_Pad / SHA512_Final
   are the real bodies, the bulk loop of Update is closed by a loop contract.

   R (ctx, off):  ctx->count == {0, 8 * off},  ctx->buf[0 .. off mod 128) ==
   G_MSG[off - off mod 128 .. off),  ctx->state == G_STATE[off div 128],
   G_NBLK == off div 128.  */
#include "crypt-port.h"
#include "xv.h"
#include "models/strings.h"
#include "lib/alg-sha512.c"

#ifndef XV_NATIVE
void *memcpy (void *d, const void *s, size_t n)
{
  __CPROVER_assert (n <= 128, "memcpy model: at most one block");
  unsigned char *dp = d; const unsigned char *sp = s;
  for (size_t i = 0; i < 128; i++)   /* XV_UNWIND 128 */
    if (i < n) dp[i] = sp[i];
  return d;
}
void *memset (void *d, int c, size_t n)
{
  __CPROVER_assert (n <= 128, "memset model: at most one block");
  unsigned char *dp = d;
  for (size_t i = 0; i < 128; i++)   /* XV_UNWIND 128 */
    if (i < n) dp[i] = (unsigned char) c;
  return d;
}
#endif

#ifndef MAXLEN
#define MAXLEN 300
#endif
#define MAXBLK ((MAXLEN + 16) / 128 + 1)
const unsigned char *G_MSG; size_t G_LEN, G_PADLEN; size_t G_NBLK;
uint64_t G_STATE[MAXBLK + 1][8];   /* never written: arbitrary but fixed */
size_t g_j;
size_t g_end;

#ifndef XV_NATIVE
void transform_stub (uint64_t *state, const unsigned char block[128])
{
  XV_STUBPRE ("C16", 128 * G_NBLK + 128 <= G_PADLEN, "no more blocks than the padded message has");
  if (XV_SAME_OBJ (block, G_MSG))
    XV_STUBPRE ("C16,C03", block == G_MSG + 128 * G_NBLK, "blocks taken from the message are the next ones, in order");
  else if (g_j >= 128 * G_NBLK && g_j < 128 * G_NBLK + 128)
    XV_STUBPRE ("C16,C03", block[g_j - 128 * G_NBLK] == G_MSG[g_j],
                "the buffered block equals the corresponding block of the padded message (arbitrary byte)");
  XV_STUBPRE ("C16", state[0] == G_STATE[G_NBLK][0] && state[1] == G_STATE[G_NBLK][1] && state[2] == G_STATE[G_NBLK][2] && state[3] == G_STATE[G_NBLK][3]
              && state[4] == G_STATE[G_NBLK][4] && state[5] == G_STATE[G_NBLK][5] && state[6] == G_STATE[G_NBLK][6] && state[7] == G_STATE[G_NBLK][7],
              "chaining value carried from the previous block");
  G_NBLK += 1;
  state[0] = G_STATE[G_NBLK][0]; state[1] = G_STATE[G_NBLK][1]; state[2] = G_STATE[G_NBLK][2]; state[3] = G_STATE[G_NBLK][3];
  state[4] = G_STATE[G_NBLK][4]; state[5] = G_STATE[G_NBLK][5]; state[6] = G_STATE[G_NBLK][6]; state[7] = G_STATE[G_NBLK][7];
}
#endif

static bool R (const SHA512_CTX *ctx, size_t off)
{
  size_t b = off / 128;
  bool ok = ctx->count[0] == 0 && ctx->count[1] == (uint64_t) off * 8 && G_NBLK == b;
  for (int k = 0; k < 8; k++)   /* XV_UNWIND 8 */
    if (ctx->state[k] != G_STATE[b][k]) ok = false;
  for (size_t i = 0; i < 128; i++)   /* XV_UNWIND 128 */
    if (i < (off & 127) && ctx->buf[i] != G_MSG[off - (off & 127) + i])
      ok = false;
  return ok;
}

static void setup (void)
{
  XV_IN (size_t, len, nondet_size);
  XV_ASSUME (len <= MAXLEN);
  G_LEN = len;
  G_PADLEN = ((len + 16) / 128 + 1) * 128;
  unsigned char *m = malloc (MAXBLK * 128);
  XV_ASSUME (m != NULL);
  XV_IN (size_t, j, nondet_size);
  XV_ASSUME (j < G_PADLEN);
  g_j = j;
  G_MSG = m;
}

/* FIPS 180-4 5.1.2: byte i >= G_LEN of the padded message */
static unsigned char pad_byte (size_t i)
{
  if (i == G_LEN) return 0x80;
  if (i < G_PADLEN - 8) return 0;          /* zeros, and the high 64 bits of the 128-bit length */
  unsigned long long bits = (unsigned long long) G_LEN * 8;
  return (unsigned char) (bits >> (8 * (G_PADLEN - 1 - i)));   /* big-endian */
}

#ifdef U_init
void harness (void)
{
  setup ();
  SHA512_CTX ctx;
  SHA512_Init (&ctx);
  XV_ASSERT ("C16", ctx.state[0] == 0x6a09e667f3bcc908ULL && ctx.state[1] == 0xbb67ae8584caa73bULL && ctx.state[2] == 0x3c6ef372fe94f82bULL
             && ctx.state[3] == 0xa54ff53a5f1d36f1ULL && ctx.state[4] == 0x510e527fade682d1ULL && ctx.state[5] == 0x9b05688c2b3e6c1fULL
             && ctx.state[6] == 0x1f83d9abfb41bd6bULL && ctx.state[7] == 0x5be0cd19137e2179ULL
             && ctx.count[0] == 0 && ctx.count[1] == 0, "Init sets H(0) of FIPS 180-4 5.3.5 and a zero length");
  XV_CANARY ("init");
}
#endif

#ifdef U_update
void harness (void)
{
  setup ();
  XV_IN (size_t, off, nondet_size);
  XV_IN (size_t, n, nondet_size);
  XV_ASSUME (off <= G_LEN && n <= G_LEN - off);
#ifdef XV_CASE_COND
  XV_ASSUME (XV_CASE_COND);
#endif
  SHA512_CTX *ctx = malloc (sizeof (SHA512_CTX));
  XV_ASSUME (ctx != NULL);
  G_NBLK = off / 128;
  g_end = off + n;
  XV_ASSUME (R (ctx, off));
  SHA512_Update (ctx, G_MSG + off, n);
  XV_ASSERT ("C16,C03", R (ctx, off + n),
             "Update (msg + off, n) takes the representation of the first off bytes to that of the first off + n bytes, for any off and n: chunking-independent");
  XV_CANARY ("update");
  if ((off & 127) && n >= 128 - (off & 127)) XV_CANARY ("update completes a buffered block");
  if (n >= 256) XV_CANARY ("update with bulk blocks");
}
#endif

#ifdef U_final
void harness (void)
{
  setup ();
  unsigned char *m = (unsigned char *) G_MSG;
  size_t j = g_j;
  XV_ASSUME (j < G_LEN || m[j] == pad_byte (j));
  SHA512_CTX *ctx = malloc (sizeof (SHA512_CTX));
  unsigned char *out = malloc (64);
  XV_ASSUME (ctx != NULL && out != NULL);
#ifdef XV_CASE_COND
  { size_t off = G_LEN; XV_ASSUME (XV_CASE_COND); }
#endif
  G_NBLK = G_LEN / 128;
  XV_ASSUME (R (ctx, G_LEN));
  xv_bzero_n = 0; xv_event_seq = 1;
  SHA512_Final (out, ctx);
  XV_ASSERT ("C16", G_NBLK == G_PADLEN / 128, "Final compresses exactly the padding blocks of the standard (one or two)");
  XV_IN (size_t, w, nondet_size);
  XV_ASSUME (w < 8);
  uint64_t s = G_STATE[G_PADLEN / 128][w];
  XV_ASSERT ("C16", out[8 * w] == (unsigned char) (s >> 56) && out[8 * w + 1] == (unsigned char) (s >> 48)
             && out[8 * w + 2] == (unsigned char) (s >> 40) && out[8 * w + 3] == (unsigned char) (s >> 32)
             && out[8 * w + 4] == (unsigned char) (s >> 24) && out[8 * w + 5] == (unsigned char) (s >> 16)
             && out[8 * w + 6] == (unsigned char) (s >> 8) && out[8 * w + 7] == (unsigned char) s,
             "the digest is the final chaining value, big-endian words H0..H7 (arbitrary word)");
  XV_ASSERT ("C09", xv_bzero_n == 1 && xv_bzeroed_after (ctx, sizeof (SHA512_CTX), 0), "Final erases the whole context");
  XV_CANARY ("final");
  if (G_PADLEN - G_LEN > 128) XV_CANARY ("final with two padding blocks");
}
#endif

#ifdef U_final_wipe
/* SHA512_Final over SHA512_Pad by contract (a recording stub): one padding
   call on the caller's context, the digest taken from the chaining value
   after it, and the whole context erased - cheap enough for the quick tier */
static int pad_calls; static SHA512_CTX *pad_ctx; static uint64_t pad_state[8];
void pad_stub (SHA512_CTX *ctx)
{
  pad_calls++; pad_ctx = ctx;
  for (int k = 0; k < 8; k++) { ctx->state[k] = nondet_u64 (); pad_state[k] = ctx->state[k]; }   /* XV_UNWIND 8 */
}
void harness (void)
{
  SHA512_CTX *ctx = malloc (sizeof (SHA512_CTX));
  unsigned char *out = malloc (64);
  XV_ASSUME (ctx != NULL && out != NULL);
  pad_calls = 0; xv_bzero_n = 0; xv_event_seq = 1;
  SHA512_Final (out, ctx);
  XV_IN (size_t, w, nondet_size);
  XV_ASSUME (w < 8);
  uint64_t s = pad_state[w];
  XV_ASSERT ("C16", pad_calls == 1 && pad_ctx == ctx && out[8 * w] == (unsigned char) (s >> 56) && out[8 * w + 1] == (unsigned char) (s >> 48)
             && out[8 * w + 2] == (unsigned char) (s >> 40) && out[8 * w + 3] == (unsigned char) (s >> 32)
             && out[8 * w + 4] == (unsigned char) (s >> 24) && out[8 * w + 5] == (unsigned char) (s >> 16)
             && out[8 * w + 6] == (unsigned char) (s >> 8) && out[8 * w + 7] == (unsigned char) s,
             "Final pads once and emits the chaining value big-endian (arbitrary word)");
  XV_ASSERT ("C09", xv_bzero_n == 1 && xv_bzeroed_after (ctx, sizeof (SHA512_CTX), 0), "Final erases the whole context: state, bit count and block buffer");
  XV_CANARY ("final_wipe");
}
#endif

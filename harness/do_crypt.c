/* Enforcement of the contract of do_crypt (static in lib/crypt.c, which is
   included as text so the real body is what is checked).  Its callees
   check_badsalt_chars, get_hashfn, get_internal are replaced by their
   contracts (contracts/crypt_c_stubs.h, contracts/get_internal_stub.c;
   enforced in harness/crypt_units.c) and the 16 hashing methods by the L0
   method contract stub (contracts/method_stub.h).  */
#include "crypt-port.h"
#include "xv.h"
#include "models/strings.h"

/* ghosts mentioned by the loop invariant of check_badsalt_chars */
size_t g_set_size;
size_t g_bk;

#include "lib/crypt.c"
#include "contracts/method_stub.h"
#include "spec/prefix.h"
#include "contracts/crypt_c_stubs.h"

#ifndef DATA_OFF
#define DATA_OFF 16     /* placement of the data object inside its block: 16 + alignment residue */
#endif
struct xv_blk
{
  unsigned char lo[DATA_OFF];     /* guard bytes before the object, also fixing its alignment residue */
  struct crypt_data d;
  unsigned char hi[16];           /* guard bytes after */
};

void harness (void)
{
  XV_IN (size_t, phr_len, nondet_size);
  XV_IN (size_t, set_len, nondet_size);
  XV_IN (_Bool, phrase_null, nondet_bool);
  XV_IN (_Bool, setting_null, nondet_bool);
  XV_ASSUME (phr_len <= XV_MAXOBJ && set_len <= XV_MAXOBJ);
  XV_IN_BYTES (phr, phrase, phr_len, 1);
  XV_IN_BYTES (set, setting, set_len, 1);
  phr[phr_len] = 0;
  set[set_len] = 0;
  /* C strings: no NUL before the terminator (stated for the first 512
     characters; longer strings are refused or their tail is irrelevant) */
  /* C strings: no NUL before the terminator (stated for the first 512
     characters; longer strings are refused or their tail is irrelevant).
     Accumulated into one flag: a chain of 1024 separate assumptions makes
     CBMC's path condition 1024 levels deep and symex quadratic.  */
  bool strs_ok = true;
#ifndef PROBE_NO512
  for (size_t k = 0; k < 512; k++)   /* XV_UNWIND 512 */
    {
      if (k < phr_len && phr[k] == 0) strs_ok = false;
      if (k < set_len && set[k] == 0) strs_ok = false;
#ifdef GOOD_SETTING
      /* variant: a setting every character of which is acceptable */
      if (k < set_len && !xv_passwd_safe (set[k])) strs_ok = false;
#endif
    }
#endif
  XV_ASSUME (strs_ok);
#ifdef GOOD_SETTING
  XV_ASSUME (set_len < 512);
#endif
  const char *phrase = phrase_null ? NULL : (const char *) phr;
  const char *setting = setting_null ? NULL : (const char *) set;
#ifndef XV_NATIVE
  xv_str_reset ();
  xv_str_register ((const char *) phr, phr_len);
  xv_str_register ((const char *) set, set_len);
#endif
  g_set_size = set_len;
  XV_IN (size_t, bk, nondet_size);
  XV_ASSUME (bk < set_len);
  g_bk = bk;
  xv_ghost_idx[0] = bk; xv_ghost_idx[1] = (size_t) -1;

  /* the data object: arbitrary contents (= any call history), any of the 16
     alignments, output holding the failure token as every caller leaves it */
  /* typed block: a byte block reinterpreted as struct crypt_data makes CBMC
     extract all 32768 bytes on every field access */
  struct xv_blk *blk = malloc (sizeof (struct xv_blk));
  XV_ASSUME (blk != NULL);
  struct crypt_data *data = &blk->d;
  XV_IN (unsigned char, tok1, nondet_uchar);
  XV_ASSUME (tok1 == '0' || tok1 == '1');
  data->output[0] = '*'; data->output[1] = (char) tok1; data->output[2] = 0;
  /* snapshots for the frame clauses: one arbitrary index per field */
  XV_IN (size_t, jo, nondet_size); XV_ASSUME (jo < sizeof data->output);
  XV_IN (size_t, js, nondet_size); XV_ASSUME (js < sizeof data->setting);
  XV_IN (size_t, ji, nondet_size); XV_ASSUME (ji < sizeof data->input);
  XV_IN (size_t, jr, nondet_size); XV_ASSUME (jr < sizeof data->reserved);
  XV_IN (size_t, jn, nondet_size); XV_ASSUME (jn < sizeof data->internal);
  char o0 = data->output[jo], s0 = data->setting[js], i0 = data->input[ji],
       r0 = data->reserved[jr], init0 = data->initialized;
  char n0 = data->internal[jn];
  unsigned char pad_lo = blk->lo[0], pad_hi = blk->hi[0];

  xv_bzero_n = 0; xv_event_seq = 1;
  ms_reset (data, phrase, setting);
  errno = 0;
#ifdef PROBE_CALL
  PROBE_CALL;
#elif !defined PROBE_NOCALL
  do_crypt (phrase, setting, data);
#endif
  int err = errno;

  /* ---- specification, from crypt(3)/crypt(5) and properties C05 C07 C09 */
  int want = -1;                      /* method the prefix selects, -1 = none */
  bool refuse_args = phrase == NULL || setting == NULL;
  bool refuse_len = !refuse_args && phr_len >= 512;
  if (!refuse_args)
    want = spec_method_of_prefix ((const unsigned char *) setting, set_len);

  XV_ASSERT ("C04", blk->lo[0] == pad_lo && blk->hi[0] == pad_hi,
             "nothing outside the data object is written");
  XV_ASSERT ("C04", data->setting[js] == s0 && data->input[ji] == i0,
             "the application-owned setting and input fields are never written");
  XV_ASSERT ("C07", ms_calls <= 1, "at most one hashing method is invoked");

  if (ms_calls == 0)
    {
      XV_CANARY ("refusal path");
      XV_ASSERT ("C05", err == EINVAL || err == ERANGE, "a refused request sets errno to EINVAL or ERANGE");
      XV_ASSERT ("C05", refuse_len == (err == ERANGE) || refuse_args, "ERANGE exactly for a passphrase of 512 or more bytes");
      XV_ASSERT ("C05,C09", data->output[jo] == o0 && data->reserved[jr] == r0 && data->internal[jn] == n0
                 && data->initialized == init0 && xv_bzero_n == 0,
                 "a request refused during argument validation leaves the whole data object untouched (failure token stays)");
#ifdef GOOD_SETTING
      XV_ASSERT ("C10,C18", refuse_args || refuse_len || want < 0,
                 "a well-formed setting with a known prefix and a phrase under 512 bytes is never refused by validation");
      if (want < 0 && !refuse_args && !refuse_len) XV_CANARY ("unknown prefix path");
#endif
    }
  else
    {
      XV_CANARY ("method called path");
      XV_ASSERT ("C05", !refuse_args && !refuse_len, "no method runs for NULL arguments or an over-long phrase");
      XV_ASSERT ("C05,C18", xv_passwd_safe (set[bk]),
                 "no method runs for a setting containing a byte that is not printable ASCII or is one of : ; * ! \\");
      XV_ASSERT ("C05,C18,C19", want >= 0 && ms_method == want, "the method invoked is the one the setting's prefix selects");
      XV_ASSERT ("C07", ms_args_ok, "the method receives exactly (phrase, strlen, setting, strlen, data->output, 384, aligned scratch inside data->internal, 8192)");
      /* C09.  explicit_bzero is modelled by its contract (ghost log,
         models/strings.c): the fields are entirely zero at return because
         (a) after the method returned, explicit_bzero was called on exactly
         (internal, 30720) and (reserved, 767), and (b) do_crypt's own code
         never writes either field (frame: an arbitrary byte of each keeps its
         value in the model where explicit_bzero does not write).  */
      XV_ASSERT ("C09", xv_bzeroed_after (data->internal, sizeof data->internal, ms_seq)
                 && xv_bzeroed_after (data->reserved, sizeof data->reserved, ms_seq),
                 "after the method returned, explicit_bzero covers all of internal and all of reserved");
      XV_ASSERT ("C09", data->internal[jn] == n0 && data->reserved[jr] == r0,
                 "do_crypt itself never writes internal or reserved, so nothing follows the erasure");
      XV_ASSERT ("C09", data->initialized == 0, "initialized is reset to 0");
      XV_ASSERT ("C05", (ms_failed && data->output[jo] == o0) || (!ms_failed && data->output[0] != '*'),
                 "the output field holds the untouched failure token if the method failed, its hash otherwise");
      if (ms_failed) XV_CANARY ("method failed path"); else XV_CANARY ("method succeeded path");
    }
}

/* Enforcement harnesses for the per-method salt generators other than the
   SHA family: descrypt, bigcrypt, bsdicrypt, bcrypt ($2b$ $2a$ $2x$ $2y$),
   sunmd5, sha1crypt, NT.  One harness text, selected with -DM_<method>.

   Postconditions are from properties C10-C13 and crypt(5):
     - failure: failure token intact, errno EINVAL or ERANGE, and the
       documented reason holds;
     - success: NUL-terminated, shorter than min(output_size, 192),
       passwd-safe, begins with the method tag, cost field = documented
       function of count, salt = injective encoding of the consumed bytes.  */
#include "crypt-port.h"
#include "xv.h"
#include "models/strings.h"
#include "contracts/strcpy_or_abort.h"

static const unsigned char spec_b64[65] =
  "./0123456789ABCDEFGHIJKLMNOPQRSTUVWXYZabcdefghijklmnopqrstuvwxyz";
/* bcrypt's own radix-64 alphabet (OpenBSD bcrypt.c) */
static const unsigned char spec_bf64[65] =
  "./ABCDEFGHIJKLMNOPQRSTUVWXYZabcdefghijklmnopqrstuvwxyz0123456789";

#ifndef OUT_OBJ
#define OUT_OBJ 256
#endif

void harness (void)
{
  XV_IN (unsigned long, count, nondet_ulong);
  XV_IN (size_t, nrbytes, nondet_size);
  XV_IN (size_t, osz, nondet_size);
  XV_ASSUME (nrbytes <= XV_MAXOBJ && osz >= 3 && osz <= 0x7fffffff);
#ifdef XV_CASE_COND
  XV_ASSUME (XV_CASE_COND);     /* one case of the job's exhaustive case split */
#endif
#ifdef OSZ_MAX
  XV_ASSUME (osz <= OSZ_MAX);   /* stated domain bound of this job */
#endif
  XV_IN_BYTES (rb, rbytes, nrbytes, 0);
  /* constant-size output object, arbitrary output_size: see
     harness/gensalt_sha.c for why this is sound for the frame clause */
  unsigned char *out = malloc (OUT_OBJ);
  XV_ASSUME (out != NULL);
  XV_IN (size_t, fk, nondet_size);
  XV_ASSUME (fk < OUT_OBJ);
  unsigned char f0 = out[fk];
  out[0] = '*'; out[1] = '0'; out[2] = 0;
  errno = 0;
#ifndef XV_NATIVE
  xv_dec_n = 0;
#endif
  GENSALT_FN (count, rb, nrbytes, out, osz);
  int err = errno;
  bool ok = out[0] != '*';
  XV_ASSERT ("C13,C04", fk < osz || out[fk] == f0, "nothing at or beyond output_size is written");
  if (!ok)
    {
      XV_ASSERT ("C13,C10", out[0] == '*' && out[1] == '0' && out[2] == 0,
                 "failure leaves the failure token untouched");
      XV_ASSERT ("C13,C11,C12", err == EINVAL || err == ERANGE, "failure sets errno to EINVAL or ERANGE");
      XV_CANARY ("failure path");
    }
#if !defined M_bcrypt || M_bcrypt != 'x'
  else
    XV_CANARY ("success path");
#endif

#if defined M_descrypt || defined M_bigcrypt
  /* fixed cost (only count 0), 12-bit salt from two random bytes */
  bool valid = count == 0 && nrbytes >= 2;
  XV_ASSERT ("C11,C12,C13", ok == valid, "succeeds exactly for count 0 and >= 2 random bytes");
  if (!ok)
    XV_ASSERT ("C11,C12", err == EINVAL, "EINVAL for a nonzero count or too few random bytes");
  else
    {
      XV_ASSERT ("C10,C12", out[0] == spec_b64[rb[0] & 0x3f] && out[1] == spec_b64[rb[1] & 0x3f] && out[2] == 0,
                 "two salt characters encode the low 6 bits of the first two random bytes, then NUL");
      XV_ASSERT ("C10", xv_passwd_safe (out[0]) && xv_passwd_safe (out[1]), "passwd-safe");
    }
#endif

#ifdef M_bsdicrypt
  bool valid = nrbytes >= 3 && osz >= 10;
  XV_ASSERT ("C12,C13", ok == valid, "succeeds exactly for >= 3 random bytes and >= 10 bytes of output");
  if (!ok)
    {
      XV_ASSERT ("C13", (err == ERANGE) == (osz < 10), "ERANGE exactly when the buffer is too small");
      if (err == EINVAL) XV_CANARY ("EINVAL path");
      if (err == ERANGE) XV_CANARY ("ERANGE path");
    }
  else
    {
      /* C11: odd, at most 2^24-1, default 725 */
      unsigned long c = count == 0 ? 725 : count;
      if (c > 0xffffff) c = 0xffffff;
      c |= 1;
      unsigned long salt = (unsigned long) rb[0] | ((unsigned long) rb[1] << 8) | ((unsigned long) rb[2] << 16);
      XV_ASSERT ("C10", out[0] == '_' && out[9] == 0, "begins with _ and is 9 characters long");
      XV_ASSERT ("C11", out[1] == spec_b64[c & 0x3f] && out[2] == spec_b64[(c >> 6) & 0x3f]
                 && out[3] == spec_b64[(c >> 12) & 0x3f] && out[4] == spec_b64[(c >> 18) & 0x3f],
                 "cost field is (count ? count : 725) clamped to 2^24-1 and made odd, 4 x 6 bits little-endian");
      XV_ASSERT ("C12", out[5] == spec_b64[salt & 0x3f] && out[6] == spec_b64[(salt >> 6) & 0x3f]
                 && out[7] == spec_b64[(salt >> 12) & 0x3f] && out[8] == spec_b64[(salt >> 18) & 0x3f],
                 "24-bit salt is the injective encoding of the first three random bytes");
      XV_ANY_INDEX (k, anyk, 9);
      XV_ASSERT ("C10", xv_passwd_safe (out[k]), "passwd-safe");
    }
#endif

#if defined M_bcrypt
  unsigned long c = count == 0 ? 5 : count;
#if M_bcrypt == 'x'
  XV_ASSERT ("C10,C11", !ok && err == EINVAL, "$2x$ must not be used for new hashes: always EINVAL");
#else
  bool argsok = nrbytes >= 16 && c >= 4 && c <= 31;
  XV_ASSERT ("C11,C12,C13", ok == (argsok && osz >= 30), "succeeds exactly for cost 4..31 (0 = 5), >= 16 random bytes, >= 30 bytes of output");
  if (!ok)
    {
      XV_ASSERT ("C11,C12", (err == EINVAL) == !argsok, "EINVAL exactly for an out-of-range count or too few random bytes");
      if (err == EINVAL) XV_CANARY ("EINVAL path");
      if (err == ERANGE) XV_CANARY ("ERANGE path");
    }
  else
    {
      XV_ASSERT ("C10", out[0] == '$' && out[1] == '2' && out[2] == M_bcrypt && out[3] == '$' && out[6] == '$' && out[29] == 0,
                 "$2<variant>$NN$ + 22 characters");
      XV_ASSERT ("C11", out[4] == '0' + c / 10 && out[5] == '0' + c % 10, "two-digit decimal cost");
      /* 128-bit salt: OpenBSD bcrypt radix-64 of the 16 bytes, big-endian
         6-bit groups, written out group by group (injective: every input
         bit appears in exactly one output character) */
      for (unsigned g = 0; g < 5; g++)
        {
          unsigned b0 = rb[3 * g], b1 = rb[3 * g + 1], b2 = rb[3 * g + 2];
          XV_ASSERT ("C12", out[7 + 4 * g] == spec_bf64[b0 >> 2]
                     && out[8 + 4 * g] == spec_bf64[((b0 & 3) << 4) | (b1 >> 4)]
                     && out[9 + 4 * g] == spec_bf64[((b1 & 15) << 2) | (b2 >> 6)]
                     && out[10 + 4 * g] == spec_bf64[b2 & 63],
                     "salt characters are bcrypt radix-64 of the random bytes (3-byte group)");
        }
      XV_ASSERT ("C12", out[27] == spec_bf64[rb[15] >> 2] && out[28] == spec_bf64[(rb[15] & 3) << 4],
                 "last salt byte encoded in two characters");
      XV_ANY_INDEX (k, anyk, 29);
      XV_ASSERT ("C10", xv_passwd_safe (out[k]), "passwd-safe");
    }
#endif
#endif

#ifdef M_sunmd5
  bool valid = nrbytes >= 8 && osz >= 33;
  XV_ASSERT ("C12,C13", ok == valid, "succeeds exactly for >= 8 random bytes and >= 33 bytes of output");
  if (!ok)
    {
      XV_ASSERT ("C13", (err == ERANGE) == (osz < 33), "ERANGE exactly when the buffer is too small");
      if (err == EINVAL) XV_CANARY ("EINVAL path");
      if (err == ERANGE) XV_CANARY ("ERANGE path");
    }
  else
    {
      /* C11: rounds field N = clamp(count) + 16 random bits; crypt applies
         4096 + N rounds in 32-bit arithmetic (crypt(5): 4096..4294963199),
         so 4096 + N must not wrap, and the effective cost must be at least
         the documented minimum */
      unsigned long base = count < 32768 ? 32768 : count;   /* documented floor */
      /* ceiling that leaves room for the 16 random bits and crypt's own 4096
         rounds inside 32 bits (crypt(5): at most 4294963199 in total) */
      unsigned long top = 0xFFFFFFFFul - 4096 - 65535;
      if (base > top) base = top;
      unsigned long rnd = ((unsigned long) rb[0] << 8) | rb[1];
      static const char pfx[13] = "$md5,rounds=";
      bool pfxok = true;
      for (unsigned i = 0; i < 12; i++)
        if (out[i] != (unsigned char) pfx[i]) pfxok = false;
      XV_ASSERT ("C10", pfxok, "begins with $md5,rounds=");
      /* the printed value, from snprintf's contract */
#ifndef XV_NATIVE
      XV_ASSERT ("C11", xv_dec_n == 1 && xv_dec_log[0].at == (const char *) out + 12, "rounds printed at offset 12");
      unsigned long long N = xv_dec_log[0].v;
      unsigned nd = xv_dec_log[0].nd;
      XV_ASSERT ("C11", xv_dec_field_is (out + 12, N, nd) && out[12] != '0', "rounds field is a canonical decimal");
#else
      unsigned long long N = 0; unsigned nd = 0;
      while (nd < 10 && xv_is_digit (out[12 + nd])) { N = N * 10 + (out[12 + nd] - '0'); nd++; }
#endif
      (void) rnd;
      XV_ASSERT ("C11", N >= 32768 && (N >= base || count > top),
                 "rounds at least max(count, 32768) (below the ceiling)");
      XV_ASSERT ("C11", N <= (count < 32768 ? 32768 : count) + 65535 || count > top,
                 "rounds within the 16-bit randomised window above max(count, 32768)");
      XV_ASSERT ("C11", N + 4096 <= 0xFFFFFFFFull,
                 "4096 + rounds, the cost crypt applies in 32-bit arithmetic, does not wrap below the minimum");
      XV_ASSERT ("C10", out[12 + nd] == '$' && out[12 + nd + 9] == '$' && out[12 + nd + 10] == 0,
                 "$md5,rounds=N$ + 8 salt characters + $ + NUL");
      unsigned long s0 = (unsigned long) rb[2] | ((unsigned long) rb[3] << 8) | ((unsigned long) rb[4] << 16);
      unsigned long s1 = (unsigned long) rb[5] | ((unsigned long) rb[6] << 8) | ((unsigned long) rb[7] << 16);
      const unsigned char *sp = out + 12 + nd + 1;
      XV_ASSERT ("C12", sp[0] == spec_b64[s0 & 63] && sp[1] == spec_b64[(s0 >> 6) & 63] && sp[2] == spec_b64[(s0 >> 12) & 63]
                 && sp[3] == spec_b64[(s0 >> 18) & 63] && sp[4] == spec_b64[s1 & 63] && sp[5] == spec_b64[(s1 >> 6) & 63]
                 && sp[6] == spec_b64[(s1 >> 12) & 63] && sp[7] == spec_b64[(s1 >> 18) & 63],
                 "48-bit salt is the injective encoding of random bytes 2..7");
      XV_ASSERT ("C10,C13", 12 + nd + 10 < 192 && 12 + nd + 10 < osz, "shorter than the buffer and than CRYPT_GENSALT_OUTPUT_SIZE");
      XV_ANY_INDEX (k, anyk, 12 + nd + 10);
      XV_ASSERT ("C10", xv_passwd_safe (out[k]), "passwd-safe");
    }
#endif

#ifdef M_nt
  XV_ASSERT ("C11,C13", ok == (count == 0 && osz >= 4), "succeeds exactly for count 0 and >= 4 bytes of output");
  if (!ok)
    XV_ASSERT ("C11,C13", (err == ERANGE) == (osz < 4), "ERANGE for a short buffer, otherwise EINVAL for a nonzero count");
  else
    XV_ASSERT ("C10", out[0] == '$' && out[1] == '3' && out[2] == '$' && out[3] == 0, "the setting is $3$");
#endif

#if defined M_yescrypt || defined M_gost_yescrypt || defined M_scrypt
  /* logarithmic cost; salt = radix-64 of up to 64 random bytes */
  size_t n = nrbytes > 64 ? 64 : nrbytes;
  size_t saltlen = (n * 8 + 5) / 6;
#if defined M_scrypt
  const size_t plen = 3 + 1 + 5 + 5;                 /* $7$ N rrrrr ppppp */
  bool costok = count == 0 || (count >= 6 && count <= 11);
  unsigned long c = count == 0 ? 7 : count;
  size_t need = 3 + 1 + 5 * 2 + saltlen + 1;
#elif defined M_yescrypt
  const size_t plen = 3 + 3 + 1;                     /* $y$ j N r $ */
  bool costok = count <= 11;
  unsigned long c = count == 0 ? 5 : count;
  size_t need = 3 + 8 * 6 + 1 + saltlen + 1;
#else
  const size_t plen = 4 + 3 + 1;                     /* $gy$ j N r $ */
  bool costok = count <= 11;
  unsigned long c = count == 0 ? 5 : count;
  size_t need = 4 + 8 * 6 + saltlen + 1 + 1;        /* yescrypt's own need plus the inserted g */
#endif
  bool argsok = costok && nrbytes >= 16;
  XV_ASSERT ("C11,C12,C13", ok == (argsok && osz >= need),
             "succeeds exactly for a documented count, >= 16 random bytes and a buffer of the documented size");
  XV_ASSERT ("C13", need <= 192, "CRYPT_GENSALT_OUTPUT_SIZE suffices for up to 64 random bytes");
  if (!ok)
    {
      XV_ASSERT ("C11,C12", err != EINVAL || !argsok, "EINVAL only for an out-of-range count or too few random bytes");
      XV_ASSERT ("C13", err != ERANGE || osz < need, "ERANGE only when the buffer is too small");
      if (err == EINVAL) XV_CANARY ("EINVAL path");
      if (err == ERANGE) XV_CANARY ("ERANGE path");
    }
  else
    {
#if defined M_scrypt
      /* N = 2^(c+7), r = 32, p = 1 in the $7$ fixed-width encoding */
      XV_ASSERT ("C10", out[0] == '$' && out[1] == '7' && out[2] == '$', "tag $7$");
      XV_ASSERT ("C11", out[3] == spec_b64[c + 7], "N = 2^(count+7), 0 selecting 7");
      XV_ASSERT ("C11", out[4] == spec_b64[32] && out[5] == '.' && out[6] == '.' && out[7] == '.' && out[8] == '.',
                 "r = 32 in 30 bits little-endian");
      XV_ASSERT ("C11", out[9] == spec_b64[1] && out[10] == '.' && out[11] == '.' && out[12] == '.' && out[13] == '.',
                 "p = 1 in 30 bits little-endian");
#else
      const unsigned char *pp = out + (plen - 4);
      XV_ASSERT ("C10", out[0] == '$' && out[plen - 6] == 'y' && out[plen - 5] == '$' && pp[3] == '$', "tag and $ separators");
#ifdef M_gost_yescrypt
      XV_ASSERT ("C10", out[1] == 'g', "gost marker");
#endif
      XV_ASSERT ("C11", pp[0] == 'j', "yescrypt default flavor");
      XV_ASSERT ("C11", pp[1] == spec_b64[(c < 3 ? c + 9 : c + 7) - 1] && pp[2] == spec_b64[(c < 3 ? 8 : 32) - 1],
                 "(N, r) = (2^(c+9), 8) for c < 3, else (2^(c+7), 32); 0 selects 5");
#endif
      XV_ASSERT ("C10,C13", plen + saltlen < osz && plen + saltlen < 192 && out[plen + saltlen] == 0,
                 "NUL-terminated at prefix + radix-64 length of the salt");
      XV_ASSERT ("C12", saltlen >= 22, "at least 128 bits of salt");
      /* arbitrary 3-byte group of the salt */
      XV_IN (size_t, gk, nondet_size);
      XV_ASSUME (gk < 22 && 3 * gk < n);
      unsigned long v = rb[3 * gk];
      size_t nch = 2;
      if (3 * gk + 1 < n) { v |= (unsigned long) rb[3 * gk + 1] << 8; nch = 3; }
      if (3 * gk + 2 < n) { v |= (unsigned long) rb[3 * gk + 2] << 16; nch = 4; }
      const unsigned char *sp = out + plen + 4 * gk;
      XV_ASSERT ("C12", sp[0] == spec_b64[v & 63] && sp[1] == spec_b64[(v >> 6) & 63]
                 && (nch < 3 || sp[2] == spec_b64[(v >> 12) & 63]) && (nch < 4 || sp[3] == spec_b64[(v >> 18) & 63]),
                 "salt group k is the injective radix-64 encoding of random bytes 3k..3k+2");
      XV_ASSERT ("C10", xv_passwd_safe (sp[0]) && xv_passwd_safe (sp[1]) && (nch < 3 || xv_passwd_safe (sp[2]))
                 && (nch < 4 || xv_passwd_safe (sp[3])), "salt characters passwd-safe");
      XV_ANY_INDEX (k, anyk, plen);
      XV_ASSERT ("C10", xv_passwd_safe (out[k]), "prefix characters passwd-safe");
      XV_CANARY ("group check reached");
    }
#endif

#ifdef M_sha1crypt
  bool argsok = nrbytes >= 16;
  if (!ok)
    {
      XV_ASSERT ("C12", err != EINVAL || !argsok, "EINVAL only for fewer than 16 random bytes");
      XV_ASSERT ("C13", !(err == ERANGE && osz >= 192 && nrbytes <= 64), "ERANGE never for the documented buffer size (nrbytes <= 64)");
      if (err == EINVAL) XV_CANARY ("EINVAL path");
      if (err == ERANGE) XV_CANARY ("ERANGE path");
    }
  else
    {
      XV_ASSERT ("C12", argsok, "success needs 16 random bytes");
      unsigned long c = count == 0 ? 262144 : count;
      if (c < 4) c = 4;
      if (c > 0xFFFFFFFFul) c = 0xFFFFFFFFul;
      static const char pfx[7] = "$sha1$";
      bool pfxok = true;
      for (unsigned i = 0; i < 6; i++)
        if (out[i] != (unsigned char) pfx[i]) pfxok = false;
      XV_ASSERT ("C10", pfxok, "begins with $sha1$");
#ifndef XV_NATIVE
      XV_ASSERT ("C11", xv_dec_n == 1 && xv_dec_log[0].at == (const char *) out + 6, "iteration count printed at offset 6");
      unsigned long long N = xv_dec_log[0].v;
      unsigned nd = xv_dec_log[0].nd;
      XV_ASSERT ("C11", xv_dec_field_is (out + 6, N, nd), "iteration field is the canonical decimal");
#else
      unsigned long long N = 0; unsigned nd = 0;
      while (nd < 10 && xv_is_digit (out[6 + nd])) { N = N * 10 + (out[6 + nd] - '0'); nd++; }
#endif
      XV_ASSERT ("C11", N <= c && N > c - c / 4, "iterations in (c - c/4, c], c = clamp(count ? count : 262144, 4, 2^32-1)");
      XV_ASSERT ("C10", out[6 + nd] == '$', "$ after the iteration count");
      /* salt: G groups of 4 characters from random bytes 4.., at most 64
         characters, then $ NUL */
      size_t g_rb = (nrbytes - 4 - 1) / 3;          /* groups for which a further byte exists (documented: 72 bits from 16 bytes) */
      size_t G = g_rb < 15 ? g_rb : 15;
      XV_ASSERT ("C12", G >= 3, "at least 72 bits of salt");
      XV_IN (size_t, gk, nondet_size);
      XV_ASSUME (gk < 15);
      const unsigned char *sp = out + 6 + nd + 1;
      if (gk < G && 6 + nd + 1 + 4 * G + 1 < osz)
        {
          unsigned long v = ((unsigned long) rb[4 + 3 * gk] << 16) | ((unsigned long) rb[4 + 3 * gk + 1] << 8) | rb[4 + 3 * gk + 2];
          XV_ASSERT ("C12", sp[4 * gk] == spec_b64[v & 63] && sp[4 * gk + 1] == spec_b64[(v >> 6) & 63]
                     && sp[4 * gk + 2] == spec_b64[(v >> 12) & 63] && sp[4 * gk + 3] == spec_b64[(v >> 18) & 63],
                     "salt group k is the injective radix-64 encoding of random bytes 4+3k..4+3k+2");
          XV_CANARY ("group check reached");
        }
      if (osz >= 192 && nrbytes <= 64)
        {
          XV_ASSERT ("C10,C13", sp[4 * G] == '$' && sp[4 * G + 1] == 0 && 6 + nd + 1 + 4 * G + 1 < 192,
                     "salt followed by $ NUL, shorter than CRYPT_GENSALT_OUTPUT_SIZE");
        }
    }
#endif
}

/* Enforcement harnesses for gensalt_sha_rn and its three wrappers.  */
#include "crypt-port.h"
#include "xv.h"
#include "contracts/gensalt_sha.h"
#include "models/strings.h"


static const unsigned char spec_b64[65] =
  "./0123456789ABCDEFGHIJKLMNOPQRSTUVWXYZabcdefghijklmnopqrstuvwxyz";

#ifdef WRAPPER
/* ---- wrapper harness: gensalt_<m>crypt_rn calls gensalt_sha_rn with the
   documented tuple and passes its own arguments through unchanged.  The
   callee is replaced by a stub that only checks its precondition. */
static unsigned long w_count; static const uint8_t *w_rb; static size_t w_nrb;
static uint8_t *w_out; static size_t w_osz; static int w_calls;
#ifndef XV_NATIVE
void gensalt_sha_rn (char tag, size_t maxsalt, unsigned long defcount,
                     unsigned long mincount, unsigned long maxcount,
                     unsigned long count, const uint8_t *rbytes, size_t nrbytes,
                     uint8_t *output, size_t output_size)
{
  XV_STUBPRE ("C10,C11,C12,C13", gensalt_sha_tuple_ok (tag, maxsalt, defcount, mincount, maxcount)
              && tag == WRAPPER_TAG, "wrapper passes the documented (tag, maxsalt, default, min, max)");
  XV_STUBPRE ("C10,C11,C12,C13", rbytes == w_rb && nrbytes == w_nrb && output == w_out && output_size == w_osz,
              "wrapper passes rbytes/nrbytes/output/output_size through");
#if WRAPPER_TAG == '1'
  XV_STUBPRE ("C11", w_count == 0 && count == 1000, "md5crypt: only count 0 reaches the encoder, as 1000 rounds");
#else
  XV_STUBPRE ("C11", count == w_count, "wrapper passes count through");
#endif
  w_calls++;
}
#endif

void harness (void)
{
  XV_IN (unsigned long, count, nondet_ulong);
  XV_IN (size_t, nrbytes, nondet_size);
  XV_IN (size_t, osz, nondet_size);
  XV_ASSUME (nrbytes <= XV_MAXOBJ && osz >= 3 && osz <= XV_MAXOBJ);
  XV_IN_BYTES (rb, rbytes, nrbytes, 0);
  unsigned char *out = malloc (osz);
  XV_ASSUME (out != NULL);
  out[0] = '*'; out[1] = '0'; out[2] = 0;
  w_count = count; w_rb = rb; w_nrb = nrbytes; w_out = out; w_osz = osz; w_calls = 0;
  errno = 0;
  WRAPPER_FN (count, rb, nrbytes, out, osz);
#ifndef XV_NATIVE
#if WRAPPER_TAG == '1'
  /* C11: fixed-cost method, only count 0 is accepted */
  if (count != 0)
    {
      XV_ASSERT ("C11", w_calls == 0 && errno == EINVAL && out[0] == '*' && out[1] == '0' && out[2] == 0,
                 "md5crypt: nonzero count rejected with EINVAL, failure token intact");
      XV_CANARY ("md5crypt nonzero count");
    }
  else
    {
      XV_ASSERT ("C10,C11", w_calls == 1, "encoder called exactly once");
      XV_CANARY ("md5crypt count 0");
    }
#else
  XV_ASSERT ("C10,C11", w_calls == 1, "encoder called exactly once");
  XV_CANARY ("wrapper end");
#endif
#endif
}

#else
/* ---- contract enforcement of gensalt_sha_rn itself */

void harness (void)
{
  XV_IN (char, tag, nondet_char);
  XV_IN (size_t, maxsalt, nondet_size);
  XV_IN (unsigned long, defc, nondet_ulong);
  XV_IN (unsigned long, minc, nondet_ulong);
  XV_IN (unsigned long, maxc, nondet_ulong);
  XV_IN (unsigned long, count, nondet_ulong);
  XV_IN (size_t, nrbytes, nondet_size);
  XV_IN (size_t, osz, nondet_size);
  XV_ASSUME (gensalt_sha_tuple_ok (tag, maxsalt, defc, minc, maxc));
  XV_ASSUME (nrbytes <= XV_MAXOBJ && osz >= 3 && osz <= 0x7fffffff);
  XV_IN_BYTES (rb, rbytes, nrbytes, 0);
  XV_IN (size_t, gk, nondet_size);
  XV_ASSUME (gk < 64);            /* more groups than any salt has; keeps 3*gk from wrapping */

  /* The output object has a constant 256 bytes (constant-size objects are
     far cheaper for the SAT back end than symbolic-size ones) while
     output_size is arbitrary: for output_size >= 256 the object bounds alone
     show nothing at or beyond output_size is written; for smaller sizes the
     arbitrary index fk in [osz, 256) must keep its arbitrary initial value.  */
  unsigned char *out = malloc (256);
  XV_ASSUME (out != NULL);
  XV_IN (size_t, fk, nondet_size);
  XV_ASSUME (fk < 256);
  unsigned char f0 = out[fk];
  /* what crypt_gensalt_rn leaves there before dispatching */
  out[0] = '*'; out[1] = '0'; out[2] = 0;
  errno = 0;
#ifndef XV_NATIVE
  xv_dec_n = 0;
#endif
  gensalt_sha_rn (tag, maxsalt, defc, minc, maxc, count, rb, nrbytes, out, osz);
  int err = errno;
  bool ok = out[0] != '*';
  XV_ASSERT ("C13,C04", fk < osz || out[fk] == f0, "nothing at or beyond output_size is written");

  unsigned long c = spec_sha_cost (count, defc, minc, maxc);
  size_t plen = spec_sha_prefix_len (c, defc);

  if (!ok)
    {
      XV_ASSERT ("C13,C10", out[0] == '*' && out[1] == '0' && out[2] == 0,
                 "failure leaves the failure token untouched");
      XV_ASSERT ("C13,C12", err == EINVAL || err == ERANGE, "failure sets errno to EINVAL or ERANGE");
      XV_ASSERT ("C12", err != EINVAL || nrbytes < 3,
                 "EINVAL only when the random input is too short for any salt");
      XV_ASSERT ("C13", err != ERANGE || osz < plen + 6,
                 "ERANGE only when the buffer cannot hold prefix + minimal salt");
      XV_ASSERT ("C13", !(nrbytes >= 3 && osz >= 192), "192 bytes always suffice");
      XV_CANARY ("failure path");
      if (err == EINVAL) XV_CANARY ("EINVAL path");
      if (err == ERANGE) XV_CANARY ("ERANGE path");
      return;
    }

  /* success */
  XV_CANARY ("success path");
  if (c == defc)
    XV_CANARY ("default cost path");
  else
    XV_CANARY ("explicit rounds path");

  /* prefix: exactly "$T$" (default cost) or "$T$rounds=<c>$" with <c> the
     canonical decimal of the documented cost */
  XV_ASSERT ("C10", out[0] == '$' && out[1] == (unsigned char) tag && out[2] == '$', "begins with the method tag");
  if (c != defc)
    {
      unsigned nd = xv_dec_ndigits (c);
#ifdef XV_NATIVE
      unsigned long v = 0;
      bool okd = spec_parse_dec (out + 10, nd, &v) && v == c;
#else
      bool okd = xv_dec_field_is (out + 10, c, nd);   /* snprintf's contract, see models/strings.h */
#endif
      XV_ASSERT ("C11", out[3] == 'r' && out[4] == 'o' && out[5] == 'u' && out[6] == 'n' && out[7] == 'd'
                 && out[8] == 's' && out[9] == '=', "rounds= field present when the cost is not the default");
      XV_ASSERT ("C11", okd && out[10] != '0' && out[10 + nd] == '$',
                 "rounds field is the canonical decimal of clamp(count ? count : default, min, max)");
    }
  /* salt: G groups of 4 characters, each the radix-64 encoding of 3 random
     bytes; G is what the documentation implies: as many whole groups as the
     random input, the method's maximum salt length and the buffer allow */
  size_t g_rb = nrbytes / 3;              /* whole 3-byte groups of random input */
  size_t g_max = maxsalt / 4;
  size_t g_room = (osz - plen - 2) / 4;
  size_t G = g_rb < g_max ? g_rb : g_max;
  if (g_room < G) G = g_room;
  XV_ASSERT ("C13", osz >= plen + 6, "success only when prefix + minimal salt fit");
  XV_ASSERT ("C13,C10", plen + 4 * G < osz && out[plen + 4 * G] == 0,
             "NUL-terminated inside the buffer at prefix + 4*groups");
  XV_ASSERT ("C12", nrbytes >= 3 && G >= 1, "the salt is never empty");
  XV_ASSERT ("C12", !(nrbytes >= 16 && osz >= 192) || 4 * G == maxsalt,
             "with >= 16 random bytes and the documented buffer the salt has the standard size");
  XV_ASSERT ("C10,C13", plen + 4 * G < 192, "result shorter than CRYPT_GENSALT_OUTPUT_SIZE");
  if (gk < G)
    {
      unsigned long value = (unsigned long) rb[3 * gk] | ((unsigned long) rb[3 * gk + 1] << 8)
                            | ((unsigned long) rb[3 * gk + 2] << 16);
      XV_ASSERT ("C12", out[plen + 4 * gk + 0] == spec_b64[value & 0x3f]
                 && out[plen + 4 * gk + 1] == spec_b64[(value >> 6) & 0x3f]
                 && out[plen + 4 * gk + 2] == spec_b64[(value >> 12) & 0x3f]
                 && out[plen + 4 * gk + 3] == spec_b64[(value >> 18) & 0x3f],
                 "salt group k is the injective radix-64 encoding of random bytes 3k..3k+2");
      XV_ASSERT ("C10", xv_passwd_safe (out[plen + 4 * gk]) && xv_passwd_safe (out[plen + 4 * gk + 1])
                 && xv_passwd_safe (out[plen + 4 * gk + 2]) && xv_passwd_safe (out[plen + 4 * gk + 3]),
                 "every salt character is passwd(5)-safe");
      XV_CANARY ("group check reached");
    }
}
#endif

/* crypt_gost_yescrypt_rn (lib/crypt-gost-yescrypt.c) against assumed
   contracts of its callees (none of them is within this family's reach or has
   its own job; they are assumptions, listed in the evidence):

     yescrypt_init_local / yescrypt_free_local   ghost mapping ledger, each may fail
     yescrypt_r (.., setting = "$y$" + rest, buf, buflen)
         NULL (buf untouched), or buf holding a NUL-terminated string shorter
         than buflen of the shape  $y$<no '$'>$<no '$'>$<hash>  whose hash
         starts no later than strlen (setting) + 1 (the core copies the setting
         up to the end of the salt and appends '$' and the hash)
     decode64 (dst, &dstlen, src, srclen)  NULL, or *dstlen <= the capacity given, dst filled
     encode64 (dst, dstlen, src, srclen)   NULL, or a NUL-terminated string of
         at most dstlen - 1 characters written at dst (requires dstlen writable bytes)
     gost_hash256, gost_hmac256            read their inputs (r_ok obligations), fill 32 bytes
     strcpy_or_abort                       contract (leaf_strcpy_or_abort)

   Clauses: C15 the region ledger (released exactly once on every path that
   acquired it); C05 every failing path leaves the output untouched and an
   errno; C04 the HMAC over the setting reads only inside the setting, the
   scratch layout is respected, nothing but output[0 .. o_size) is written;
   C06/C01 the result is "$gy$" + the core's string from its 4th character
   with the hash field replaced.  */
#include "crypt-port.h"
#include "xv.h"
#include "models/strings.h"
#define STUB_STRCPY_OR_ABORT 1
#include "contracts/strcpy_or_abort.h"
#include "alg-yescrypt.h"
#include "alg-gost3411-2012-hmac.h"

#ifndef GY_SET
#define GY_SET 128          /* job domain: strlen (setting) < GY_SET */
#endif
#define GY_MAX (GY_SET + 48) /* longest string the core can return for such a setting */
static int yl_owned; static const void *yl_local;
static int init_calls, free_calls, yr_calls; static bool init_failed, free_failed, yr_failed, yr_args_ok;
static const uint8_t *g_phr; static size_t g_phr_size, g_set_len; static const unsigned char *g_set;
static size_t yr_hash_off;       /* offset of the hash field in the core's result */
static bool dec_failed, enc_failed; static int hash_calls, hmac_calls; static bool hmac_ok = true;

int yescrypt_init_local (yescrypt_local_t *local)
{
  init_calls++;
  XV_STUBPRE ("C04", XV_W_OK (local, sizeof *local), "yescrypt_init_local: local is writable");
  init_failed = nondet_bool ();
  if (init_failed) { errno = ENOMEM; return -1; }
  yl_owned = 1; yl_local = local;
  return 0;
}
int yescrypt_free_local (yescrypt_local_t *local)
{
  free_calls++;
  XV_STUBPRE ("C15", yl_owned && local == yl_local, "yescrypt_free_local: releases a region that is owned (never twice)");
  free_failed = nondet_bool ();
  if (free_failed) { errno = EINVAL; return -1; }
  yl_owned = 0;
  return 0;
}
uint8_t *yescrypt_r (const yescrypt_shared_t *shared, yescrypt_local_t *local, const uint8_t *passwd, size_t passwdlen,
                     const uint8_t *setting, const yescrypt_binary_t *key, uint8_t *buf, size_t buflen)
{
  yr_calls++;
  XV_STUBPRE ("C15,C04", yl_owned && local == yl_local, "yescrypt_r: local was initialised and is still owned");
  XV_STUBPRE ("C04", buflen <= 383 && XV_W_OK (buf, buflen), "yescrypt_r: buflen writable bytes (the 383 bytes of outbuf after its first)");
  /* the converted setting: "$y$" + the caller's setting from its 5th character, NUL-terminated */
  size_t j = nondet_size ();
  __CPROVER_assume (j + 4 < g_set_len);
  yr_args_ok = shared == NULL && key == NULL && passwd == g_phr && passwdlen == g_phr_size
               && setting[0] == '$' && setting[1] == 'y' && setting[2] == '$' && setting[3 + j] == g_set[4 + j] && setting[g_set_len - 1] == 0;
  yr_failed = nondet_bool ();
  if (yr_failed) return NULL;
  size_t p1 = nondet_size (), p2 = nondet_size (), n = nondet_size ();
  /* the hash field of a yescrypt string has at most 43 characters (alg-yescrypt-common.c: HASH_LEN) */
  __CPROVER_assume (3 <= p1 && p1 < p2 && p2 < n && n < buflen && p2 + 1 <= g_set_len && n <= p2 + 1 + 43 && n < GY_MAX);
  bool shape = true;
  for (size_t i = 0; i < GY_MAX; i++)   /* XV_UNWIND GYMAX */
    if (i <= n)
      {
        unsigned char c = nondet_uchar ();
        if (i == n) c = 0;
        else if (i == 0 || i == 2 || i == p1 || i == p2) c = '$';
        else if (i == 1) c = 'y';
        else if (c == 0 || (i < p2 && c == '$')) shape = false;
        buf[i] = c;
      }
  __CPROVER_assume (shape);
  yr_hash_off = p2 + 1;
  return buf;
}
const uint8_t *yescrypt_decode64 (uint8_t *dst, size_t *dstlen, const uint8_t *src, size_t srclen)
{
  XV_STUBPRE ("C04", *dstlen <= 32 && XV_W_OK (dst, *dstlen) && (srclen == 0 || XV_R_OK (src, srclen)), "decode64: capacity writable, srclen readable");
  dec_failed = nondet_bool ();
  if (dec_failed) { *dstlen = 0; return NULL; }
  size_t got = nondet_size ();
  __CPROVER_assume (got <= *dstlen);
  *dstlen = got;
  return src + srclen;
}
uint8_t *yescrypt_encode64 (uint8_t *dst, size_t dstlen, const uint8_t *src, size_t srclen)
{
  XV_STUBPRE ("C04", srclen == 32 && XV_R_OK (src, 32), "encode64: the 32-byte MAC");
  /* 43 characters and a NUL: the real function refuses if they do not fit dstlen; they must fit the object */
  XV_STUBPRE ("C04", dstlen >= 44 && XV_W_OK (dst, 44), "encode64: room for 43 characters and the NUL at the hash field");
  enc_failed = false;
  for (unsigned i = 0; i < 44; i++) dst[i] = i == 43 ? 0 : (unsigned char) '.';   /* XV_UNWIND 44 */
  return dst + 43;
}
void gost_hash256 (const uint8_t *t, size_t n, uint8_t *out32, GOST34112012Context *ctx)
{
  hash_calls++;
  XV_STUBPRE ("C04", XV_W_OK (out32, 32) && XV_W_OK (ctx, sizeof *ctx), "gost_hash256: 32-byte result and a context");
  hmac_ok = hmac_ok && t == g_phr && n == g_phr_size;
}
void gost_hmac256 (const uint8_t *k, size_t n, const uint8_t *t, size_t len, uint8_t *out32, gost_hmac_256_t *gostbuf)
{
  hmac_calls++;
  XV_STUBPRE ("C04", n == 32 && XV_R_OK (k, 32) && (len == 0 || XV_R_OK (t, len)) && XV_W_OK (out32, 32) && XV_W_OK (gostbuf, sizeof *gostbuf),
              "gost_hmac256: 32-byte key, len readable text bytes, 32-byte result, scratch");
  if (hmac_calls == 1)
    XV_STUBPRE ("C04,C03", t == g_set && len <= g_set_len, "the inner HMAC reads the caller's setting, and no further than its length");
}
#include "lib/crypt-gost-yescrypt.c"

void harness (void)
{
  XV_IN (size_t, set_len, nondet_size);
  XV_ASSUME (set_len >= 4 && set_len < GY_SET);
  unsigned char *set = malloc (GY_SET + 1);   /* constant-size object (a symbolic-size one costs the solver an order of magnitude); reads of the setting are bounded by explicit obligations in the stubs */
  unsigned char *phr = malloc (1);
  unsigned char *out = malloc (CRYPT_OUTPUT_SIZE);
  crypt_gost_yescrypt_internal_t *scr = malloc (sizeof (crypt_gost_yescrypt_internal_t));
  XV_ASSUME (set != NULL && phr != NULL && out != NULL && scr != NULL);
  XV_IN (size_t, o_size, nondet_size);
  XV_IN (size_t, s_size, nondet_size);
  XV_IN (size_t, phr_size, nondet_size);
  XV_ASSUME (o_size <= CRYPT_OUTPUT_SIZE && s_size <= 8192);
  bool nz = true;
  for (size_t i = 0; i < GY_SET; i++)   /* XV_UNWIND GYSET */
    if (i < set_len && set[i] == 0) nz = false;
  XV_ASSUME (nz);
  set[set_len] = 0;
  xv_str_reset ();
  xv_str_register ((const char *) set, set_len);
  g_phr = phr; g_phr_size = phr_size; g_set = set; g_set_len = set_len;
  yl_owned = 0; init_calls = free_calls = yr_calls = hash_calls = hmac_calls = 0; hmac_ok = true;
  init_failed = free_failed = yr_failed = dec_failed = false; yr_args_ok = true;
  out[0] = '*'; out[1] = '0'; out[2] = 0;
  XV_IN (size_t, f, nondet_size);
  XV_ASSUME (f < CRYPT_OUTPUT_SIZE);
  unsigned char o_f = out[f];
  errno = 0;
  crypt_gost_yescrypt_rn ((const char *) phr, phr_size, (const char *) set, set_len, out, o_size, scr, s_size);
  int err = errno;
  bool failed = out[0] == '*';
  bool fits = !(o_size < set_len + 45 || CRYPT_OUTPUT_SIZE < set_len + 45 || s_size < sizeof (crypt_gost_yescrypt_internal_t));
  bool tag = set[0] == '$' && set[1] == 'g' && set[2] == 'y' && set[3] == '$';
  XV_ASSERT ("C04", f < o_size || out[f] == o_f, "nothing at or beyond o_size is written (arbitrary byte)");
  XV_ASSERT ("C15", init_calls <= 1 && yr_calls <= 1 && free_calls <= 1 && (init_calls == 0 || init_failed || free_calls == 1),
             "a region that was acquired is released exactly once, whatever the outcome");
  XV_ASSERT ("C15", yl_owned == 0 || free_failed, "nothing is still owned at return unless the release itself failed");
  XV_ASSERT ("C03,C07", yr_calls == 0 || yr_args_ok, "the core is given the caller's phrase and the setting with $gy$ turned into $y$");
  if (!fits || !tag)
    {
      XV_ASSERT ("C05", failed && out[f] == o_f && init_calls == 0 && err == (fits ? EINVAL : ERANGE), "too small: ERANGE; wrong tag: EINVAL; nothing acquired, output untouched");
      XV_CANARY ("refused");
      return;
    }
  if (failed)
    {
      XV_ASSERT ("C05,C15", out[f] == o_f && (err == EINVAL || err == ERANGE || err == ENOMEM), "a failing request leaves the output untouched and sets errno");
      XV_ASSERT ("C15", init_failed || yr_failed || free_failed || dec_failed, "failure only for an allocation, computation, release or decoding failure");
      XV_CANARY ("failure path");
      if (init_failed) XV_CANARY ("allocation failure path");
      if (free_calls == 1 && free_failed) XV_CANARY ("release failure path");
      if (dec_failed) XV_CANARY ("decode failure path");
      return;
    }
  XV_CANARY ("success path");
  XV_ASSERT ("C05", !init_failed && !yr_failed && !free_failed && !dec_failed, "success only when every step succeeded");
  XV_ASSERT ("C02,C03", hash_calls == 1 && hmac_calls == 2 && hmac_ok, "GOST hash of the phrase, inner HMAC over the setting, outer HMAC over the yescrypt output");
  XV_ASSERT ("C06,C01", out[0] == '$' && out[1] == 'g' && out[2] == 'y' && out[3] == '$' && out[1 + yr_hash_off + 43] == 0,
             "the result is $gy$ + the core's string from its 4th character, with a 43-character hash field, NUL-terminated");
}

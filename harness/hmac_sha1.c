/* C16 / C02 / C09: hmac_sha1_process_data (lib/alg-hmac-sha1.c) against
   RFC 2104 as a call transcript over SHA-1, for every key length and text
   length.  sha1_init_ctx / sha1_process_bytes / sha1_finish_ctx are replaced
   by stubs that record the transcript (pointer, length, and a snapshot of
   every 64-byte block, because the pads are wiped afterwards) and return
   arbitrary digests (A-det).

   RFC 2104:  K' = key            if key_len <= 64 (the block size)
              K' = SHA1 (key)     otherwise
              HMAC = SHA1 ((K' ^ opad) || SHA1 ((K' ^ ipad) || text))
   with K' zero-extended to 64 bytes, ipad = 0x36.., opad = 0x5c..  */
#include "crypt-port.h"
#include "xv.h"
#include "models/strings.h"
#include "contracts/digest_stubs.h"
#include "alg-sha1.h"
#include "alg-hmac-sha1.h"

#ifndef XV_NATIVE
enum { EV_INIT, EV_PROC, EV_FIN };
/* transcript event: kind, pointer, length; for 64- and 20-byte inputs the
   byte at the harness's arbitrary index g_j (the pads are wiped before the
   function returns, so the byte is sampled at call time); digests likewise */
struct ev { int kind; const void *p; size_t n; unsigned char at_j; unsigned char dig_j; };
#define NEV 12
static struct ev evs[NEV]; static unsigned nev;
static size_t g_j;

void sha1_init_ctx (struct sha1_ctx *ctx)
{
  XV_STUBPRE ("C04", XV_W_OK (ctx, sizeof *ctx), "sha1_init_ctx: context writable");
  if (nev < NEV) { evs[nev].kind = EV_INIT; evs[nev].p = ctx; nev++; }
}
void sha1_process_bytes (const void *buffer, struct sha1_ctx *ctx, size_t size)
{
  XV_STUBPRE ("C04", size == 0 || XV_R_OK (buffer, size), "sha1_process_bytes: buffer has size readable bytes");
  if (nev < NEV)
    {
      evs[nev].kind = EV_PROC; evs[nev].p = buffer; evs[nev].n = size;
      if ((size == 64 || size == 20) && g_j < size)
        evs[nev].at_j = ((const unsigned char *) buffer)[g_j];
      nev++;
    }
  (void) ctx;
}
void *sha1_finish_ctx (struct sha1_ctx *ctx, void *resbuf)
{
  XV_STUBPRE ("C04", XV_W_OK (resbuf, 20), "sha1_finish_ctx: 20 writable result bytes");
  XV_HAVOC_SLICE (resbuf, 20);
  if (nev < NEV)
    {
      evs[nev].kind = EV_FIN; evs[nev].p = resbuf;
      if (g_j < 20) evs[nev].dig_j = ((const unsigned char *) resbuf)[g_j];
      nev++;
    }
  (void) ctx;
  return resbuf;
}
#endif

void harness (void)
{
  XV_IN (size_t, key_len, nondet_size);
  XV_IN (size_t, text_len, nondet_size);
  XV_ASSUME (key_len <= XV_MAXOBJ && text_len <= XV_MAXOBJ);
  XV_IN_BYTES (key, key, key_len, 0);
  XV_IN_BYTES (text, text, text_len, 0);
  unsigned char *res = malloc (20);
  XV_ASSUME (res != NULL);
  XV_IN (size_t, j, nondet_size);
  XV_ASSUME (j < 64);
  g_j = j;
  nev = 0; xv_bzero_n = 0; xv_event_seq = 1;
  hmac_sha1_process_data (text, text_len, key, key_len, res);

  bool longkey = key_len > 64;
  unsigned b = longkey ? 3 : 0;         /* index of the inner hash's init event */
  if (longkey)
    {
      XV_ASSERT ("C16,C02", nev >= 3 && evs[0].kind == EV_INIT && evs[1].kind == EV_PROC && evs[1].p == key && evs[1].n == key_len
                 && evs[2].kind == EV_FIN, "a key longer than the block size is replaced by SHA1 (key)");
      XV_CANARY ("long key path");
    }
  else
    XV_CANARY ("short key path");
  XV_ASSERT ("C16,C02", nev == b + 8, "exactly two further SHA-1 computations: inner and outer");
  /* K'[j], zero-extended */
  unsigned char kj = longkey ? (j < 20 ? evs[2].dig_j : 0) : (j < key_len ? key[j] : 0);
  XV_ASSERT ("C16,C02", evs[b].kind == EV_INIT && evs[b + 1].kind == EV_PROC && evs[b + 1].n == 64
             && evs[b + 1].at_j == (unsigned char) (kj ^ 0x36),
             "inner hash starts with K' XOR ipad (arbitrary byte of the block)");
  XV_ASSERT ("C16,C02", evs[b + 2].kind == EV_PROC && evs[b + 2].p == text && evs[b + 2].n == text_len && evs[b + 3].kind == EV_FIN,
             "followed by the whole text");
  XV_ASSERT ("C16,C02", evs[b + 4].kind == EV_INIT && evs[b + 5].kind == EV_PROC && evs[b + 5].n == 64
             && evs[b + 5].at_j == (unsigned char) (kj ^ 0x5c),
             "outer hash starts with K' XOR opad (arbitrary byte of the block)");
  XV_ASSERT ("C16,C02", evs[b + 6].kind == EV_PROC && evs[b + 6].n == 20 && (j >= 20 || evs[b + 6].at_j == evs[b + 3].dig_j)
             && evs[b + 7].kind == EV_FIN && evs[b + 7].p == res,
             "followed by the 20-byte inner digest; the outer digest is the result");
  XV_ASSERT ("C16", j >= 20 || res[j] == evs[b + 7].dig_j, "the result buffer holds the outer digest");
  /* C09: the hashed key and both pads are erased */
  XV_ASSERT ("C09", xv_bzero_n == 3 && xv_bzero_log[0].n == 20 && xv_bzero_log[1].n == 64 && xv_bzero_log[2].n == 64,
             "the temporary key digest and both key pads are erased (explicit_bzero over their full sizes)");
}

/* Enforcement of small leaf contracts whose stub side is used elsewhere:
   strcpy_or_abort (contracts/strcpy_or_abort.h), get_random_bytes (stub in
   harness/api.c), and the static-object entry points crypt and
   crypt_gensalt (funnels into crypt_r / crypt_gensalt_rn).  */
#include "crypt-port.h"
#include "xv.h"
#include "models/strings.h"

#ifdef L_strcpy_or_abort
void harness (void)
{
  XV_IN (size_t, len, nondet_size);
  XV_IN (size_t, d_size, nondet_size);
  XV_ASSUME (len < 384 && d_size <= 384);
  unsigned char *src = malloc (384), *dst = malloc (384);
  XV_ASSUME (src != NULL && dst != NULL);
  bool nz = true;
  for (size_t i = 0; i < 384; i++)   /* XV_UNWIND 384 */
    if (i < len && src[i] == 0) nz = false;
  XV_ASSUME (nz);
  src[len] = 0;
  xv_str_reset ();
  xv_str_register ((const char *) src, len);
  XV_IN (size_t, k, nondet_size);
  XV_ASSUME (k < 384);
  unsigned char old = dst[k];
  /* the three assert()s of the function are its precondition: a caller that
     violates one aborts the process - here they are assumed, at call sites
     they are STUBPRE obligations */
  XV_ASSUME (d_size >= len + 1);
  size_t r = strcpy_or_abort (dst, d_size, src);
  XV_ASSERT ("C04,C13", r == len, "returns strlen (src)");
  XV_ASSERT ("C04,C13", k >= d_size ? dst[k] == old : (k < len ? dst[k] == src[k] : dst[k] == 0),
             "dst[0..len) is the string, dst[len..d_size) is zero, nothing beyond d_size is written");
  XV_CANARY ("strcpy_or_abort");
}
#endif

#ifdef L_get_random_bytes
/* arc4random_buf (libc): fills exactly n bytes */
static int a4_calls; static void *a4_p; static size_t a4_n;
void arc4random_buf (void *buf, size_t n)
{
  XV_STUBPRE ("C04", n == 0 || XV_W_OK (buf, n), "arc4random_buf: buffer writable for n bytes");
  a4_calls++; a4_p = buf; a4_n = n;
  XV_HAVOC_SLICE (buf, n);
}
extern bool get_random_bytes (void *buf, size_t buflen);
void harness (void)
{
  XV_IN (size_t, n, nondet_size);
  XV_ASSUME (n <= 300);
  unsigned char *buf = malloc (n);
  XV_ASSUME (buf != NULL);
  a4_calls = 0; errno = 0;
  bool ok = get_random_bytes (buf, n);
  if (n == 0)
    XV_ASSERT ("C12", ok && a4_calls == 0, "nothing to do for a zero length");
  else if (n > 256)
    {
      XV_ASSERT ("C12,C04", !ok && errno == EIO && a4_calls == 0, "requests above 256 bytes are refused (EIO) without touching the buffer");
      XV_CANARY ("too large");
    }
  else
    {
      XV_ASSERT ("C12", ok && a4_calls == 1 && a4_p == buf && a4_n == n,
                 "exactly the requested bytes are drawn from the OS generator (arc4random_buf) into the caller's buffer");
      XV_CANARY ("drawn");
    }
}
#endif

#ifdef L_static_entry
/* crypt (static data object) and crypt_gensalt (static 192-byte buffer) */
#include "crypt.h"
static int cr_calls, gs_calls; static const char *cr_phrase, *cr_setting; static struct crypt_data *cr_data;
static const char *gs_prefix, *gs_rbytes; static unsigned long gs_count; static int gs_nr, gs_osz; static char *gs_out;
static char cr_ret[4], gs_ret[4];
char *crypt_r (const char *phrase, const char *setting, struct crypt_data *data)
{ cr_calls++; cr_phrase = phrase; cr_setting = setting; cr_data = data; return cr_ret; }
char *crypt_gensalt_rn (const char *prefix, unsigned long count, const char *rbytes, int nrbytes, char *output, int output_size)
{ gs_calls++; gs_prefix = prefix; gs_count = count; gs_rbytes = rbytes; gs_nr = nrbytes; gs_out = output; gs_osz = output_size; return gs_ret; }
extern char *crypt (const char *, const char *);
extern char *crypt_gensalt (const char *, unsigned long, const char *, int);
void harness (void)
{
  static const char p[] = "pw", s[] = "$1$x", rb[] = "0123456789abcdef";
  XV_IN (unsigned long, count, nondet_ulong);
  XV_IN (int, nrb, nondet_int);
  cr_calls = gs_calls = 0;
  char *r1 = crypt (p, s);
  struct crypt_data *d1 = cr_data;
  char *r2 = crypt (p, s);
  XV_ASSERT ("C07", cr_calls == 2 && r1 == cr_ret && r2 == cr_ret && cr_phrase == p && cr_setting == s
             && cr_data == d1 && __CPROVER_OBJECT_SIZE (d1) == sizeof (struct crypt_data) && d1 != NULL,
             "crypt is crypt_r on one static struct crypt_data, with the caller's arguments and crypt_r's result");
  char *g = crypt_gensalt (s, count, rb, nrb);
  XV_ASSERT ("C10,C07", gs_calls == 1 && g == gs_ret && gs_prefix == s && gs_count == count && gs_rbytes == rb && gs_nr == nrb
             && gs_osz == CRYPT_GENSALT_OUTPUT_SIZE && __CPROVER_OBJECT_SIZE (gs_out) == CRYPT_GENSALT_OUTPUT_SIZE
             && !__CPROVER_same_object (gs_out, d1),
             "crypt_gensalt is crypt_gensalt_rn on its own static CRYPT_GENSALT_OUTPUT_SIZE-byte buffer (distinct from crypt's object)");
  XV_CANARY ("static entries");
}
#endif

#ifdef L_be32_vect
/* lib/byteorder.h: the vector forms used by SHA-256 (and, with 64-bit words,
   SHA-512).  Loop contract over the moving pointers, for every length.  */
#include "byteorder.h"
uint8_t *g_dst; const uint32_t *g_src; size_t g_len, g_k;
void harness (void)
{
  XV_IN (size_t, n, nondet_size);
  XV_ASSUME (n <= XV_MAXOBJ / 4);
  uint32_t *src = malloc (4 * n); uint8_t *dst = malloc (4 * n);
  XV_ASSUME (src != NULL && dst != NULL);
  XV_IN (size_t, k, nondet_size);
  XV_ASSUME (k < n);
  g_dst = dst; g_src = src; g_len = n; g_k = k;
  cpu_to_be32_vect (dst, src, n);
  XV_ASSERT ("C04,C16", dst[4 * k] == (uint8_t) (src[k] >> 24) && dst[4 * k + 1] == (uint8_t) (src[k] >> 16)
             && dst[4 * k + 2] == (uint8_t) (src[k] >> 8) && dst[4 * k + 3] == (uint8_t) src[k],
             "word k of the source is stored big-endian at byte 4k (arbitrary k)");
  XV_CANARY ("be32_vect");
}
#endif

#ifdef L_yescrypt_uint32_codec
/* lib/alg-yescrypt-common.c: the variable-length radix-64 number codec that
   carries the flavor, N, r, p, t, g and NROM fields of $y$ / $gy$ settings
   (and the fixed-width form used by $7$).  decode (encode (v)) == v for every
   32-bit v and minimum: what crypt_gensalt writes is what crypt reads (C10),
   and what crypt echoes in its result is what a re-hash reads (C01).
   Every loop is bounded by the 32-bit operand width (at most 6 characters),
   so the stated unwind with unwinding assertions is exhaustive.  */
#include "lib/alg-yescrypt-common.c"
void harness (void)
{
  XV_IN (uint32_t, v, nondet_uint);
  XV_IN (uint32_t, min, nondet_uint);
  XV_IN (size_t, dlen, nondet_size);
  XV_ASSUME (dlen <= 16);
  uint8_t buf[16];
  uint8_t *e = encode64_uint32 (buf, dlen, v, min);
  if (v < min)
    {
      XV_ASSERT ("C10,C11", e == NULL, "a value below the field's minimum is refused");
      XV_CANARY ("below minimum");
    }
  else if (e != NULL)
    {
      size_t n = (size_t) (e - buf);
      XV_ASSERT ("C04,C13", n >= 1 && n <= 6 && n < dlen && buf[n] == 0,
                 "1..6 characters plus a NUL, all inside dstlen");
      XV_IN (size_t, k, nondet_size);
      XV_ASSUME (k < n);
      XV_ASSERT ("C06,C10", buf[k] < 0x80 && buf[k] >= '.' && atoi64 (buf[k]) <= 63,
                 "every character written belongs to the radix-64 alphabet");
      uint32_t back = ~v;
      const uint8_t *d = decode64_uint32 (&back, buf, min);
      XV_ASSERT ("C10,C01", d == e && back == v,
                 "decode64_uint32 reads back exactly the value, consuming exactly the characters written");
      XV_CANARY ("round trip");
    }
  else
    {
      /* six characters carry 48 + (8 << 6) + (4 << 12) + (2 << 18) + (1 << 24) + (1 << 30) values */
      XV_ASSERT ("C13,C11", dlen <= 6 || v - min >= 1091059272u,
                 "refused only for lack of room (6 characters and a NUL always suffice) or for an offset above the codec's range");
      XV_CANARY ("no room");
    }

  /* fixed-width form: srcbits in {30} at the call sites ($7$ r and p), any here */
  XV_IN (uint32_t, w, nondet_uint);
  XV_IN (uint32_t, bits, nondet_uint);
  XV_ASSUME (bits <= 30);
  uint8_t fb[16];
  uint8_t *fe = encode64_uint32_fixed (fb, sizeof fb, w, bits);
  uint32_t nch = (bits + 5) / 6;             /* <= 5 characters, <= 30 bits */
  XV_ASSERT ("C13,C11", (fe != NULL) == ((w >> (6 * nch)) == 0),
             "refused exactly when the value does not fit ceil(bits/6) characters");
  if (fe != NULL)
    {
      XV_ASSERT ("C13", (size_t) (fe - fb) == nch && *fe == 0, "ceil(bits/6) characters and a NUL");
      uint32_t fback = ~w;
      const uint8_t *fd = decode64_uint32_fixed (&fback, bits, fb);
      XV_ASSERT ("C10,C01", fd == fe && fback == w,
                 "decode64_uint32_fixed reads back exactly the value, consuming exactly the characters written");
    }
  XV_CANARY ("fixed round trip");
}
#endif

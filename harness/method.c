/* Enforcement of the L0 method contract (stub side: contracts/method_stub.h)
   plus the method-specific shape/encoding clauses against the real
   crypt_<method>_rn.  One harness text; the method is selected with -DM_<m>
   and the real translation unit is included as text.

   Strong precondition (what do_crypt guarantees, see job do_crypt):
     phrase, setting NUL-terminated; strlen (phrase) < 512; every byte of the
     setting passwd-safe; the method's prefix matches; output is the 384-byte
     field holding the failure token; scratch is 8192 bytes, 16-aligned,
     contents arbitrary.
   Weak precondition (-DWEAK): arbitrary setting bytes, arbitrary
     out_size/scr_size - memory-safety clauses only (C04).  */
#include "crypt-port.h"
#include "xv.h"
#include "models/strings.h"
#if defined M_md5crypt
#define XV_PHRASE_PREFIX_OK 1       /* md5crypt's bit loop feeds phrase[0] */
#endif
#include "contracts/digest_stubs.h"

#if defined M_md5crypt
#include "alg-md5.h"
XV_DIGEST_STUB (md5, MD5_CTX, 16, MD5_Init, MD5_Update, MD5_Final, size_t)
#include "lib/crypt-md5.c"
#define METHOD_FN crypt_md5crypt_rn
#define PREFIX "$1$"
#endif

static const unsigned char spec_b64[65] =
  "./0123456789ABCDEFGHIJKLMNOPQRSTUVWXYZabcdefghijklmnopqrstuvwxyz";

/* ghost indices the loop invariants and string models may mention */
size_t g_k;

void harness (void)
{
  XV_IN (size_t, phr_len, nondet_size);
  XV_IN (size_t, set_len, nondet_size);
  XV_ASSUME (phr_len < 512 && set_len <= XV_MAXOBJ);
  XV_IN_BYTES (phr, phrase, phr_len, 1);
  XV_IN_BYTES (set, setting, set_len, 1);
  phr[phr_len] = 0;
  set[set_len] = 0;
  bool strs_ok = true;
  for (size_t k = 0; k < 512; k++)   /* XV_UNWIND 512 */
    {
      if (k < phr_len && phr[k] == 0) strs_ok = false;
      if (k < set_len && set[k] == 0) strs_ok = false;
#ifndef WEAK
      if (k < set_len && !xv_passwd_safe (set[k])) strs_ok = false;
#endif
    }
  XV_ASSUME (strs_ok);
#ifndef WEAK
  /* get_hashfn's guarantee: the method's prefix */
  static const char pfx[] = PREFIX;
  XV_ASSUME (set_len >= sizeof pfx - 1);
  for (size_t k = 0; k < sizeof pfx - 1; k++)
    XV_ASSUME (set[k] == (unsigned char) pfx[k]);
#endif
  xv_str_reset ();
  xv_str_register ((const char *) phr, phr_len);
  xv_str_register ((const char *) set, set_len);
  XV_IN (size_t, gk, nondet_size);
  XV_ASSUME (gk < 384);
  g_k = gk;
  xv_ghost_idx[0] = gk; xv_ghost_idx[1] = (size_t) -1;

#ifdef WEAK
  XV_IN (size_t, out_size, nondet_size);
  XV_IN (size_t, scr_size, nondet_size);
  XV_ASSUME (out_size <= 384 && scr_size <= 8192);
#else
  size_t out_size = 384, scr_size = 8192;
#endif
  unsigned char *out = malloc (384);
  /* scratch: 16-aligned like struct crypt_internal, arbitrary contents */
  struct { _Alignas (16) unsigned char b[8192]; } *scr = malloc (sizeof *scr);
  XV_ASSUME (out != NULL && scr != NULL);
  out[0] = '*'; out[1] = '0'; out[2] = 0;
  unsigned char o_gk = out[gk];
  XV_IN (size_t, pk, nondet_size);
  XV_ASSUME (pk < phr_len);
  unsigned char p_pk = phr[pk];
  unsigned char s_gk = gk < set_len ? set[gk] : 0;

  xv_phrase_p = phr; xv_phrase_n = phr_len; xv_phrase_absorbed = 0;
  errno = 0;
  METHOD_FN ((const char *) phr, phr_len, (const char *) set, set_len, out, out_size, scr->b, scr_size);
  int err = errno;

  XV_ASSERT ("C04", phr[pk] == p_pk && (gk >= set_len || set[gk] == s_gk), "phrase and setting are only read");
  bool failed = out[0] == '*';
  if (failed)
    {
      XV_ASSERT ("C05", out[gk] == o_gk, "a failing method leaves the output (failure token) untouched");
      XV_ASSERT ("C05", err == EINVAL || err == ERANGE || err == ENOMEM, "a failing method sets errno to EINVAL, ERANGE or ENOMEM");
      XV_CANARY ("failure path");
      return;
    }
  XV_CANARY ("success path");
#ifdef WEAK
  return;
#else

#if defined M_md5crypt
  /* crypt(5): $1$ + up to 8 salt characters (ending at the first $) + $ + 22
     characters.  Under the strong precondition the request cannot fail.  */
  size_t s = 0;
  bool ended = false;
  for (size_t k = 0; k < 8; k++)
    if (!ended)
      {
        if (3 + k >= set_len || set[3 + k] == '$') ended = true; else s++;
      }
  XV_ASSERT ("C06,C01", out[0] == '$' && out[1] == '1' && out[2] == '$', "prefix $1$");
  XV_ASSERT ("C06,C01", gk >= s || out[3 + gk] == set[3 + gk], "the salt (at most 8 characters, up to the first $) is copied verbatim");
  XV_ASSERT ("C06", out[3 + s] == '$' && out[3 + s + 1 + 22] == 0, "$ separator, 22 digest characters, NUL");
  XV_ASSERT ("C06", gk >= 22 || xv_is_b64 (out[3 + s + 1 + gk]), "digest characters are from ./0-9A-Za-z");
  XV_ASSERT ("C06", gk > 3 + s + 22 || xv_passwd_safe (out[gk]), "every character is passwd-safe");
  XV_ASSERT ("C03", xv_phrase_absorbed >= 3, "the whole phrase is absorbed by the digest");
  /* C02 encoding layer: FreeBSD md5crypt's byte permutation of the final digest */
  {
    const unsigned char *d = xv_md5_last;
    static const unsigned char perm[5][3] = { {0, 6, 12}, {1, 7, 13}, {2, 8, 14}, {3, 9, 15}, {4, 10, 5} };
    const unsigned char *dp = out + 3 + s + 1;
    bool enc_ok = true;
    for (unsigned g = 0; g < 5; g++)
      {
        unsigned long w = ((unsigned long) d[perm[g][0]] << 16) | ((unsigned long) d[perm[g][1]] << 8) | d[perm[g][2]];
        for (unsigned j = 0; j < 4; j++)
          if (dp[4 * g + j] != spec_b64[(w >> (6 * j)) & 63]) enc_ok = false;
      }
    if (dp[20] != spec_b64[d[11] & 63] || dp[21] != spec_b64[d[11] >> 6]) enc_ok = false;
    XV_ASSERT ("C02,C06", enc_ok, "the 22 characters are the published permutation and radix-64 encoding of the final MD5 digest");
  }
#endif
#endif
}

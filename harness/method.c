/* Enforcement of the L0 method contract (stub side: contracts/method_stub.h)
   plus the method-specific shape/encoding clauses against the real
   crypt_<method>_rn.  One harness text; the method is selected with -DM_<m>
   and the real translation unit is included as text.

   Strong precondition (what do_crypt guarantees, see job do_crypt):
     phrase, setting NUL-terminated; strlen (phrase) < 512; every byte of the
     setting passwd-safe; the method's prefix matches; output is the 384-byte
     field holding the failure token; scratch is 8192 bytes, 16-aligned,
     contents arbitrary.
   Weak precondition (-DWEAK): arbitrary setting bytes, arbitrary
     out_size/scr_size - memory-safety clauses only (C04).  */
#include "crypt-port.h"
#include "xv.h"
#include "models/strings.h"
#if defined M_md5crypt
#define XV_PHRASE_PREFIX_OK 1       /* md5crypt's bit loop feeds phrase[0] */
#endif
#include "contracts/digest_stubs.h"

#if defined M_md5crypt
#include "alg-md5.h"
XV_DIGEST_STUB (md5, MD5_CTX, 16, MD5_Init, MD5_Update, MD5_Final, size_t)
#include "lib/crypt-md5.c"
#define METHOD_FN crypt_md5crypt_rn
#define PREFIX "$1$"
#endif

#if defined M_sha256crypt
#include "alg-sha256.h"
XV_DIGEST_STUB (sha, SHA256_CTX, 32, SHA256_Init, SHA256_Update, SHA256_Final, size_t)
#include "lib/crypt-sha256.c"
#define METHOD_FN crypt_sha256crypt_rn
#define METHOD_CAN_FAIL 1           /* malformed rounds= field */
#define PREFIX "$5$"
#define SHA_DIGEST 32
#define SHA_CHARS 43
/* SHA-crypt.txt step 22 (e), SHA-256: digest byte triples in output order */
static const unsigned char sha_perm[][3] = { {0, 10, 20}, {21, 1, 11}, {12, 22, 2}, {3, 13, 23}, {24, 4, 14},
  {15, 25, 5}, {6, 16, 26}, {27, 7, 17}, {18, 28, 8}, {9, 19, 29} };
#define SHA_NTRIPLES 10
#endif
#if defined M_sha512crypt
#include "alg-sha512.h"
XV_DIGEST_STUB (sha, SHA512_CTX, 64, SHA512_Init, SHA512_Update, SHA512_Final, size_t)
#include "lib/crypt-sha512.c"
#define METHOD_FN crypt_sha512crypt_rn
#define METHOD_CAN_FAIL 1           /* malformed rounds= field */
#define PREFIX "$6$"
#define SHA_DIGEST 64
#define SHA_CHARS 86
/* SHA-crypt.txt step 22 (e), SHA-512 */
static const unsigned char sha_perm[][3] = { {0, 21, 42}, {22, 43, 1}, {44, 2, 23}, {3, 24, 45}, {25, 46, 4},
  {47, 5, 26}, {6, 27, 48}, {28, 49, 7}, {50, 8, 29}, {9, 30, 51}, {31, 52, 10}, {53, 11, 32}, {12, 33, 54},
  {34, 55, 13}, {56, 14, 35}, {15, 36, 57}, {37, 58, 16}, {59, 17, 38}, {18, 39, 60}, {40, 61, 19}, {62, 20, 41} };
#define SHA_NTRIPLES 21
#endif

#if defined M_nt
#include "alg-md4.h"
XV_DIGEST_STUB (md4, MD4_CTX, 16, MD4_Init, MD4_Update, MD4_Final, size_t)
#define STUB_STRCPY_OR_ABORT 1
#include "contracts/strcpy_or_abort.h"
#include "lib/crypt-nthash.c"
#define METHOD_FN crypt_nt_rn
#define SCRATCH_T crypt_nt_internal_t
#define PREFIX "$3$"
#endif
#if defined M_sunmd5
#include "alg-md5.h"
XV_DIGEST_STUB (md5, MD5_CTX, 16, MD5_Init, MD5_Update, MD5_Final, size_t)
#include "lib/crypt-sunmd5.c"
#define METHOD_FN crypt_sunmd5_rn
#define PREFIX "$md5"
#define METHOD_CAN_FAIL 1
#ifndef XV_NATIVE
/* contract of muffet_coin_toss (static; enforced for memory safety by job
   sunmd5_coin_toss): a pure function of the 16 digest bytes and the round */
bool muffet_coin_toss_stub (const uint8_t prev_digest[16], unsigned int round_count)
{
  XV_STUBPRE ("C04", XV_R_OK (prev_digest, 16), "muffet_coin_toss: 16 readable digest bytes");
  (void) round_count;
  return nondet_bool ();
}
#endif
#endif
#if defined M_sha1crypt
#include "alg-hmac-sha1.h"
#include "alg-sha1.h"
#ifndef XV_NATIVE
/* contract of hmac_sha1_process_data (lib/alg-hmac-sha1.c), stub side:
   requires r_ok (text, text_len), r_ok (key, key_len), w_ok (resbuf, 20)
   assigns  resbuf[0..20)
   ensures  resbuf is the MAC (arbitrary value here); ghost copy kept */
unsigned char xv_hmac_last[20]; unsigned xv_hmac_calls; size_t xv_hmac_first_len;
void hmac_sha1_process_data (const uint8_t *text, size_t text_len, const uint8_t *key, size_t key_len, void *resbuf)
{
  XV_STUBPRE ("C04", text_len == 0 || XV_R_OK (text, text_len), "hmac_sha1_process_data: text has text_len readable bytes");
  XV_STUBPRE ("C04", XV_W_OK (resbuf, 20), "hmac_sha1_process_data: result buffer holds 20 bytes");
  XV_STUBPRE ("C03", key == xv_phrase_p && key_len == xv_phrase_n, "the HMAC key is the whole phrase, in every iteration");
  if (xv_hmac_calls == 0) xv_hmac_first_len = text_len;
  if (xv_hmac_calls < 1000000) xv_hmac_calls++;
  XV_HAVOC_SLICE (resbuf, 20);
  XV_COPY16 (xv_hmac_last, (unsigned char *) resbuf);
  XV_COPY4 (xv_hmac_last, (unsigned char *) resbuf, 16);
}
#endif
#include "lib/crypt-pbkdf1-sha1.c"
#define METHOD_FN crypt_sha1crypt_rn
#define PREFIX "$sha1$"
#define METHOD_CAN_FAIL 1
#endif
#if defined M_descrypt || defined M_bigcrypt || defined M_bsdicrypt
#include "contracts/des_stubs.h"
#include "lib/crypt-des.c"
#define METHOD_CAN_FAIL 1
#if defined M_descrypt
#define METHOD_FN crypt_descrypt_rn
#define PREFIX ""
#elif defined M_bigcrypt
#define METHOD_FN crypt_bigcrypt_rn
#define PREFIX ""
#else
#define METHOD_FN crypt_bsdicrypt_rn
#define PREFIX "_"
#endif
#endif

/* bounded memcpy for the methods that copy a symbolic number of setting
   bytes into the 384-byte output (CBMC's built-in model of memcpy with a
   symbolic length is prohibitively expensive) */
#if (defined M_sunmd5) && !defined XV_NATIVE
void *memcpy (void *d, const void *s, size_t n)
{
  __CPROVER_assert (n <= 384, "memcpy model: at most CRYPT_OUTPUT_SIZE bytes");
  XV_STUBPRE ("C04", n == 0 || (XV_W_OK (d, n) && XV_R_OK (s, n)), "memcpy: destination writable and source readable for n bytes");
  unsigned char *dp = d; const unsigned char *sp = s;
  for (size_t i = 0; i < 384; i++)   /* XV_UNWIND 384 */
    if (i < n) dp[i] = sp[i];
  return d;
}
#endif

static const unsigned char spec_b64[65] =
  "./0123456789ABCDEFGHIJKLMNOPQRSTUVWXYZabcdefghijklmnopqrstuvwxyz";

/* ghost indices the loop invariants and string models may mention */
size_t g_k;

void harness (void)
{
  XV_IN (size_t, phr_len, nondet_size);
  XV_IN (size_t, set_len, nondet_size);
#ifdef WEAK
  /* memory-safety variant: strings in objects of exactly their length */
  XV_ASSUME (phr_len < 512 && set_len <= XV_MAXOBJ);
  XV_IN_BYTES (phr, phrase, phr_len, 1);
  XV_IN_BYTES (set, setting, set_len, 1);
#else
  /* functional variant: constant-size objects (CBMC bit-blasts them; symbolic
     size objects go through its array theory, whose cost is quadratic in the
     number of accesses).  Stated bound: strlen (setting) < SET_CAP (512 unless
     the job says otherwise; always longer than the method's longest hash).  Reads past
     the terminating NUL stay inside the object and are caught by the string
     models' own obligations instead of object bounds.  */
#ifndef SET_CAP
#define SET_CAP 512
#endif
  XV_ASSUME (phr_len < 512 && set_len < SET_CAP);
  XV_IN_BYTES_FIXED (phr, phrase, phr_len, 512);
  XV_IN_BYTES_FIXED (set, setting, set_len, SET_CAP);
#endif
  phr[phr_len] = 0;
  set[set_len] = 0;
  bool strs_ok = true;
  for (size_t k = 0; k < 512; k++)   /* XV_UNWIND 512 */
    {
      if (k < phr_len && phr[k] == 0) strs_ok = false;
      if (k < set_len && set[k] == 0) strs_ok = false;
#ifndef WEAK
      if (k < set_len && k < SET_CAP && !xv_passwd_safe (set[k])) strs_ok = false;
#endif
    }
  XV_ASSUME (strs_ok);
#ifndef WEAK
  /* get_hashfn's guarantee: the method's prefix */
  static const char pfx[] = PREFIX;
  XV_ASSUME (set_len >= sizeof pfx - 1);
  for (size_t k = 0; k < sizeof pfx - 1; k++)
    XV_ASSUME (set[k] == (unsigned char) pfx[k]);
#endif
#ifndef XV_NATIVE
  xv_str_reset ();
  xv_str_register ((const char *) phr, phr_len);
  xv_str_register ((const char *) set, set_len);
#endif
  XV_IN (size_t, gk, nondet_size);
  XV_ASSUME (gk < 384);
  g_k = gk;
#ifndef XV_NATIVE
  xv_ghost_idx[0] = gk; xv_ghost_idx[1] = (size_t) -1;
#endif

#ifdef WEAK
  XV_IN (size_t, out_size, nondet_size);
  XV_IN (size_t, scr_size, nondet_size);
  XV_ASSUME (out_size <= 384 && scr_size <= 8192);
#else
  size_t out_size = 384, scr_size = 8192;
#endif
  unsigned char *out = malloc (384);
  /* scratch: 8192 bytes, 16-aligned like struct crypt_internal, arbitrary
     contents.  Where the method's scratch type is visible the object is
     allocated with that type in front (CBMC then accesses its fields directly
     instead of reinterpreting a byte array). */
#ifdef SCRATCH_T
  struct { _Alignas (16) SCRATCH_T s; unsigned char pad[8192 - sizeof (SCRATCH_T)]; } *scr0 = malloc (8192);
  struct { unsigned char *b; } scr_, *scr = &scr_;
  scr_.b = (unsigned char *) scr0;
#else
  struct { _Alignas (16) unsigned char b[8192]; } *scr = malloc (sizeof *scr);
#endif
#ifdef SCRATCH_T
  XV_ASSUME (out != NULL && scr0 != NULL);
#else
  XV_ASSUME (out != NULL && scr != NULL);
#endif
  out[0] = '*'; out[1] = '0'; out[2] = 0;
  unsigned char o_gk = out[gk];
  XV_IN (size_t, pk, nondet_size);
  XV_ASSUME (pk < phr_len);
  unsigned char p_pk = phr[pk];
  unsigned char s_gk = gk < set_len ? set[gk] : 0;

#ifndef XV_NATIVE
  xv_phrase_p = phr; xv_phrase_n = phr_len; xv_phrase_absorbed = 0;
  xv_parse_n = 0; xv_dec_n = 0;
#if defined M_descrypt || defined M_bigcrypt || defined M_bsdicrypt
  xv_des_keys = 0; xv_des_blocks = 0; xv_des_key_set = 0; xv_des_salt_set = 0;
#endif
#endif
#if !defined XV_NATIVE && !defined WEAK && (defined M_md5crypt || defined M_sha256crypt || defined M_sha512crypt)
  {
    /* specification-side parse of the salt span (crypt(5)): after the prefix
       and an optional rounds=<digits>$ field, up to the first $ or the end,
       at most 8 (md5crypt) / 16 (sha*crypt) characters */
    size_t off = 3;
#if !defined M_md5crypt
    static const char rp_[8] = "rounds=";
    bool cust = set_len >= 10;
    for (unsigned i = 0; i < 7; i++)   /* XV_UNWIND 7 */
      if (cust && set[3 + i] != (unsigned char) rp_[i]) cust = false;
    size_t nd_ = 0; bool run_ = true;
    for (size_t k = 0; k < 12; k++)   /* XV_UNWIND 12 */
      if (cust && run_) { if (10 + k < set_len && xv_is_digit (set[10 + k])) nd_++; else run_ = false; }
    if (cust) off = 10 + nd_ + 1;
    const size_t maxs = 16;
#else
    const size_t maxs = 8;
#endif
    size_t sl = 0; bool end_ = false;
    for (size_t k = 0; k < 16; k++)   /* XV_UNWIND 16 */
      if (!end_ && k < maxs) { if (off + k >= set_len || set[off + k] == '$') end_ = true; else sl++; }
    xv_setting_p = set; xv_salt_off = off; xv_salt_n = sl; xv_salt_span_set = 1; xv_salt_absorbed = 0;
  }
#elif !defined XV_NATIVE
  xv_salt_span_set = 0;
#endif
  /* C07: errno holds whatever an earlier call left there */
  XV_IN (int, e0, nondet_int);
  errno = e0;
  METHOD_FN ((const char *) phr, phr_len, (const char *) set, set_len, out, out_size, scr->b, scr_size);
  int err = errno;

  XV_ASSERT ("C04", phr[pk] == p_pk && (gk >= set_len || set[gk] == s_gk), "phrase and setting are only read");
  bool failed = out[0] == '*';
  if (failed)
    {
      XV_ASSERT ("C05", out[gk] == o_gk, "a failing method leaves the output (failure token) untouched");
      XV_ASSERT ("C05", err == EINVAL || err == ERANGE || err == ENOMEM, "a failing method sets errno to EINVAL, ERANGE or ENOMEM");
#if !defined WEAK && (defined M_sha256crypt || defined M_sha512crypt)
      {
        /* completeness of the parser, independent of history: under do_crypt's
           guarantees the only reason to refuse is a rounds= field that is not
           a canonical decimal 1000..999999999 followed by $ */
        static const char rp0[8] = "rounds=";
        bool custom0 = set_len >= 10;
        for (unsigned i = 0; i < 7; i++)
          if (custom0 && set[3 + i] != (unsigned char) rp0[i]) custom0 = false;
        size_t nd0 = 0; bool run0 = true;
        for (size_t k = 0; k < 12; k++)   /* XV_UNWIND 12 */
          if (custom0 && run0) { if (10 + k < set_len && xv_is_digit (set[10 + k])) nd0++; else run0 = false; }
        XV_ASSERT ("C07,C10", custom0 && !(nd0 >= 4 && nd0 <= 9 && set[10] != '0' && set[10 + nd0] == '$'),
                   "a request is refused only for a malformed rounds= field, whatever errno held before the call");
      }
#endif
#if defined WEAK || defined METHOD_CAN_FAIL
      XV_CANARY ("failure path");
#else
      XV_ASSERT ("C10,C06", 0, "under do_crypt's guarantees this method cannot fail (every well-formed setting with its prefix is hashable)");
#endif
      return;
    }
  XV_CANARY ("success path");
#ifdef WEAK
  return;
#else

#if defined M_md5crypt
  /* crypt(5): $1$ + up to 8 salt characters (ending at the first $) + $ + 22
     characters.  Under the strong precondition the request cannot fail.  */
  size_t s = 0;
  bool ended = false;
  for (size_t k = 0; k < 8; k++)
    if (!ended)
      {
        if (3 + k >= set_len || set[3 + k] == '$') ended = true; else s++;
      }
  XV_ASSERT ("C06,C01", out[0] == '$' && out[1] == '1' && out[2] == '$', "prefix $1$");
  XV_ASSERT ("C06,C01", gk >= s || out[3 + gk] == set[3 + gk], "the salt (at most 8 characters, up to the first $) is copied verbatim");
  XV_ASSERT ("C06", out[3 + s] == '$' && out[3 + s + 1 + 22] == 0, "$ separator, 22 digest characters, NUL");
  XV_ASSERT ("C06", gk >= 22 || xv_is_b64 (out[3 + s + 1 + gk]), "digest characters are from ./0-9A-Za-z");
  XV_ASSERT ("C06", gk > 3 + s + 22 || xv_passwd_safe (out[gk]), "every character is passwd-safe");
  XV_ASSERT ("C03", xv_phrase_absorbed >= 3, "the whole phrase is absorbed by the digest");
  XV_ASSERT ("C01,C03", xv_salt_absorbed >= 2, "the salt span is absorbed by the digest");
  /* C02 encoding layer: FreeBSD md5crypt's byte permutation of the final digest */
  {
    const unsigned char *d = xv_md5_last;
    static const unsigned char perm[5][3] = { {0, 6, 12}, {1, 7, 13}, {2, 8, 14}, {3, 9, 15}, {4, 10, 5} };
    const unsigned char *dp = out + 3 + s + 1;
    bool enc_ok = true;
    for (unsigned g = 0; g < 5; g++)
      {
        unsigned long w = ((unsigned long) d[perm[g][0]] << 16) | ((unsigned long) d[perm[g][1]] << 8) | d[perm[g][2]];
        for (unsigned j = 0; j < 4; j++)
          if (dp[4 * g + j] != spec_b64[(w >> (6 * j)) & 63]) enc_ok = false;
      }
    if (dp[20] != spec_b64[d[11] & 63] || dp[21] != spec_b64[d[11] >> 6]) enc_ok = false;
    XV_ASSERT ("C02,C06", enc_ok, "the 22 characters are the published permutation and radix-64 encoding of the final MD5 digest");
  }
#endif

#if defined M_sha256crypt || defined M_sha512crypt
  /* crypt(5) / SHA-crypt.txt: $5$[rounds=N$]salt[$...] with N a decimal
     without leading zero, 1000 <= N <= 999999999, salt = up to 16 characters
     ending at the first $.  */
  static const char rp[8] = "rounds=";
  bool custom = set_len >= 10;
  for (unsigned i = 0; i < 7; i++)
    if (custom && set[3 + i] != (unsigned char) rp[i]) custom = false;
  size_t nd = 0;               /* digits of N */
  bool run = true;
  for (size_t k = 0; k < 12; k++)   /* XV_UNWIND 12 */
    if (custom && run) { if (10 + k < set_len && xv_is_digit (set[10 + k])) nd++; else run = false; }
  size_t salt_off = custom ? 10 + nd + 1 : 3;
  /* the value strtoul gives the digit run (strtoul's contract; the relation
     between digits and value is decimal notation itself) */
  unsigned long N = custom && xv_parse_n == 1 ? xv_parse_log[0].v : 5000;
  size_t s = 0;
  bool ended = false;
  for (size_t k = 0; k < 16; k++)   /* XV_UNWIND 16 */
    if (!ended) { if (salt_off + k >= set_len || set[salt_off + k] == '$') ended = true; else s++; }
  XV_ASSERT ("C01", !custom || (xv_parse_n == 1 && xv_parse_log[0].at == (const char *) set + 10),
             "a rounds= field is parsed from the digits that follow it");
  XV_ASSERT ("C01,C11", !custom || (nd >= 4 && nd <= 9 && set[10] != '0' && set[10 + nd] == '$' && N >= 1000 && N <= 999999999),
             "success with a rounds= field only for a canonical decimal 1000..999999999 terminated by $");
  XV_ASSERT ("C06,C01", out[0] == '$' && out[1] == PREFIX[1] && out[2] == '$', "method prefix");
  if (custom)
    {
      XV_ASSERT ("C01,C06", gk >= 7 + nd + 1 || out[3 + gk] == set[3 + gk],
                 "rounds=N$ is reproduced verbatim (so re-hashing with the result parses the same cost)");
      XV_ASSERT ("C01", xv_dec_n == 1 && xv_dec_log[0].v == N && xv_dec_log[0].at == (const char *) out + 10,
                 "the printed rounds value is the parsed one");
      XV_CANARY ("custom rounds path");
    }
  else
    XV_CANARY ("default rounds path");
  XV_ASSERT ("C06,C01", gk >= s || out[salt_off + gk] == set[salt_off + gk], "the salt (at most 16 characters, up to the first $) is copied verbatim");
  XV_ASSERT ("C06", out[salt_off + s] == '$' && out[salt_off + s + 1 + SHA_CHARS] == 0, "$ separator, fixed-length digest, NUL");
  XV_ASSERT ("C06", gk >= SHA_CHARS || xv_is_b64 (out[salt_off + s + 1 + gk]), "digest characters are from ./0-9A-Za-z");
  XV_ASSERT ("C06", gk > salt_off + s + SHA_CHARS || xv_passwd_safe (out[gk]), "every character is passwd-safe");
  XV_ASSERT ("C03", xv_phrase_absorbed >= 3, "the whole phrase is absorbed by the digest");
  {
    const unsigned char *d = xv_sha_last;
    const unsigned char *dp = out + salt_off + s + 1;
    bool enc_ok = true;
    for (unsigned g = 0; g < SHA_NTRIPLES; g++)   /* XV_UNWIND 21 */
      {
        unsigned long w = ((unsigned long) d[sha_perm[g][0]] << 16) | ((unsigned long) d[sha_perm[g][1]] << 8) | d[sha_perm[g][2]];
        for (unsigned j = 0; j < 4; j++)
          if (dp[4 * g + j] != spec_b64[(w >> (6 * j)) & 63]) enc_ok = false;
      }
#if SHA_DIGEST == 32
    { unsigned long w = ((unsigned long) d[31] << 8) | d[30];
      for (unsigned j = 0; j < 3; j++) if (dp[40 + j] != spec_b64[(w >> (6 * j)) & 63]) enc_ok = false; }
#else
    { unsigned long w = d[63];
      for (unsigned j = 0; j < 2; j++) if (dp[84 + j] != spec_b64[(w >> (6 * j)) & 63]) enc_ok = false; }
#endif
    XV_ASSERT ("C02,C06", enc_ok, "the digest characters are SHA-crypt.txt's permutation and radix-64 encoding of the final digest");
  }
#endif

#if defined M_nt
  /* $3$$ + 32 lower-case hex digits of MD4 (UCS-2LE (phrase)) */
  XV_ASSERT ("C06,C01", out[0] == '$' && out[1] == '3' && out[2] == '$' && out[3] == '$' && out[36] == 0, "$3$$ + 32 characters + NUL");
  {
    const unsigned char *d = xv_md4_last;
    static const char hex[17] = "0123456789abcdef";
    bool enc_ok = true;
    for (unsigned i = 0; i < 16; i++)   /* XV_UNWIND 16 */
      if (out[4 + 2 * i] != (unsigned char) hex[d[i] >> 4] || out[5 + 2 * i] != (unsigned char) hex[d[i] & 15]) enc_ok = false;
    XV_ASSERT ("C02,C06", enc_ok, "the 32 characters are the lower-case hexadecimal form of the MD4 digest");
  }
  XV_ASSERT ("C03", xv_md4_finals == 1 && xv_md4_upd_n == 2 * phr_len,
             "exactly 2 * strlen (phrase) bytes of the UCS-2 buffer are hashed");
  XV_ASSERT ("C06", gk > 35 || xv_passwd_safe (out[gk]), "every character is passwd-safe");
#endif

#if defined M_descrypt || defined M_bsdicrypt
  /* key material: phrase bytes shifted left by one, zero padded (the 8th bit
     is dropped - documented); salt and count as decoded from the setting */
#if defined M_descrypt
  {
    int v0 = xv_b64_val (set[0]), v1 = set_len > 1 ? xv_b64_val (set[1]) : -1;
    XV_ASSERT ("C05,C06", v0 >= 0 && v1 >= 0, "success only with two salt characters from ./0-9A-Za-z");
    XV_ASSERT ("C06,C01", out[0] == set[0] && out[1] == set[1] && out[13] == 0, "2 salt characters + 11 hash characters + NUL");
    XV_ASSERT ("C01,C03,C07", xv_des_last_salt == (uint32_t) (v0 | (v1 << 6)) && xv_des_last_count == 25 && xv_des_blocks == 1,
               "12-bit salt and 25 iterations reach the cipher");
    bool key_ok = true;
    for (unsigned i = 0; i < 8; i++)   /* XV_UNWIND 8 */
      if (xv_des_last_key[i] != (unsigned char) ((i < phr_len ? phr[i] : 0) << 1)) key_ok = false;
    XV_ASSERT ("C03,C02,C07", key_ok && xv_des_keys == 1, "the key is the first 8 phrase bytes shifted left by one bit, zero padded (nothing else - in particular no scratch residue - enters it)");
    XV_ASSERT ("C06", gk >= 11 || xv_is_b64 (out[2 + gk]), "hash characters are from ./0-9A-Za-z");
  }
#else
  {
    bool alpha = set_len >= 9;
    unsigned long cnt = 0, slt = 0;
    for (unsigned i = 1; i < 9; i++)   /* XV_UNWIND 9 */
      if (alpha)
        {
          int v = xv_b64_val (set[i]);
          if (v < 0) alpha = false;
          else if (i < 5) cnt |= (unsigned long) v << (6 * (i - 1));
          else slt |= (unsigned long) v << (6 * (i - 5));
        }
    XV_ASSERT ("C05,C06", alpha, "success only with 8 count/salt characters from ./0-9A-Za-z");
    XV_ASSERT ("C06,C01", gk >= 9 || out[gk] == set[gk], "_ + count + salt are copied verbatim");
    XV_ASSERT ("C06", out[20] == 0 && (gk >= 11 || xv_is_b64 (out[9 + gk])), "11 hash characters + NUL");
    XV_ASSERT ("C01,C03,C07,C11", xv_des_last_salt == slt && xv_des_last_count == cnt, "24-bit salt and 24-bit count reach the cipher");
    bool key_ok = true;
    for (unsigned i = 0; i < 8; i++)   /* XV_UNWIND 8 */
      if (xv_des_first_key[i] != (unsigned char) ((i < phr_len ? phr[i] : 0) << 1)) key_ok = false;
    XV_ASSERT ("C03,C07", key_ok && xv_des_keys == (phr_len == 0 ? 1 : (phr_len + 7) / 8),
               "every 8-byte block of the phrase is folded into the key; the first key is the first block XOR an all-zero IV (no scratch residue)");
  }
#endif
#if defined M_descrypt
  XV_ASSERT ("C06", gk >= 13 || xv_passwd_safe (out[gk]), "every character is passwd-safe");
#else
  XV_ASSERT ("C06", gk >= 20 || xv_passwd_safe (out[gk]), "every character is passwd-safe");
#endif
#endif

#if defined M_bigcrypt
  {
    int v0 = xv_b64_val (set[0]), v1 = set_len > 1 ? xv_b64_val (set[1]) : -1;
    XV_ASSERT ("C05,C06", v0 >= 0 && v1 >= 0, "success only with two salt characters from ./0-9A-Za-z");
    XV_ASSERT ("C06,C01", out[0] == set[0] && out[1] == set[1], "the salt is reproduced");
    /* one 11-character block per 8 phrase bytes, at most 16; a phrase of more
       than 8 bytes with a setting of at most 13 characters is a plain DES request */
    size_t blocks = (phr_len > 8 && set_len <= 13) ? 1 : (phr_len == 0 ? 1 : (phr_len + 7) / 8);
    if (blocks > 16) blocks = 16;
    XV_ASSERT ("C06", out[2 + 11 * blocks] == 0, "2 + 11 * blocks characters");
    XV_ASSERT ("C06", gk >= 2 + 11 * blocks || xv_is_b64 (out[gk]), "all characters from ./0-9A-Za-z");
    XV_ASSERT ("C03", xv_des_keys == blocks && xv_des_blocks == blocks, "one key schedule and one encryption per block");
  }
#endif

#if defined M_sunmd5
  /* $md5[,$][rounds=N$]salt[$[$]] + $ + 22 characters: the setting up to the
     salt terminator is reproduced verbatim */
  XV_ASSERT ("C06,C01", out[0] == '$' && out[1] == 'm' && out[2] == 'd' && out[3] == '5', "prefix $md5");
  {
    size_t n = 0;
    bool ended = false;
    for (size_t k = 0; k < 384; k++)   /* XV_UNWIND 384 */
      if (!ended) { if (out[k] == 0) ended = true; else n++; }
    XV_ASSERT ("C04,C06", ended && n >= 4 + 1 + 22 + 1, "NUL-terminated inside the 384-byte output");
    size_t saltlen = n - 23;
    XV_ASSERT ("C06,C01", gk >= saltlen || gk >= set_len || out[gk] == set[gk], "the setting part is copied verbatim");
    XV_ASSERT ("C06", out[saltlen] == '$' && (gk >= 22 || xv_is_b64 (out[saltlen + 1 + gk])), "$ + 22 characters from ./0-9A-Za-z");
    XV_ASSERT ("C06", gk >= n || xv_passwd_safe (out[gk]), "every character is passwd-safe");
  }
  XV_ASSERT ("C03", xv_phrase_absorbed >= 1, "the whole phrase is absorbed by the digest");
#endif

#if defined M_sha1crypt
  /* $sha1$<iterations>$<salt>[$...]: the result is $sha1$<iterations>$<salt>$
     + 28 characters; everything before the digest is what strtoul parsed
     (canonical decimal) and the salt characters verbatim */
  {
    size_t n = 0;
    bool ended = false;
    for (size_t k = 0; k < 384; k++)   /* XV_UNWIND 384 */
      if (!ended) { if (out[k] == 0) ended = true; else n++; }
    XV_ASSERT ("C04,C06", ended && n >= 6 + 1 + 1 + 1 + 1 + 28, "NUL-terminated inside the 384-byte output");
    static const char pfx6[7] = "$sha1$";
    bool pfxok = true;
    for (unsigned i = 0; i < 6; i++)   /* XV_UNWIND 6 */
      if (out[i] != (unsigned char) pfx6[i]) pfxok = false;
    XV_ASSERT ("C06,C01", pfxok, "prefix $sha1$");
    XV_ASSERT ("C06", out[n - 29] == '$' && (gk >= 28 || xv_is_b64 (out[n - 28 + gk])), "$ + 28 characters from ./0-9A-Za-z");
    XV_ASSERT ("C06", gk >= n || xv_passwd_safe (out[gk]), "every character is passwd-safe");
    XV_ASSERT ("C03", xv_hmac_calls >= 1, "the phrase keys the HMAC");
    XV_ASSERT ("C01,C11", xv_dec_n == 2 && xv_dec_log[0].v == xv_dec_log[1].v, "the iteration count printed into the result is the one that was hashed");
  }
#endif
#endif
}
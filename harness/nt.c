/* crypt_nt_rn (lib/crypt-nthash.c) in a dedicated harness (the generic method
   harness could not carry it).  MD4_Init/Update/Final by contract (enforced
   by md4_init/md4_update/md4_final), strcpy_or_abort by contract
   (leaf_strcpy_or_abort).

   Strong precondition on the phrase only: phr_size < 512 (do_crypt's guard;
   the UCS-2 buffer holds 2 * 512 bytes).  Any setting that is a string of at
   least 3 readable bytes (get_hashfn matched "$3$"), any out_size <= 384, any
   scr_size.

   C02/C03  the MD4 input is the UCS-2LE widening of the whole phrase:
            2 * phr_size bytes, byte 2j is phrase[j], byte 2j+1 is zero
            (arbitrary j; the conversion loop by a loop contract).
   C06/C01  the result is $3$$ followed by the 32 lower-case hex digits of the
            digest and a NUL; nothing of the setting beyond its tag is used.
   C05/C04  ERANGE for a short output or scratch, EINVAL for a wrong tag,
            output untouched; nothing at or beyond out_size written.  */
#include "crypt-port.h"
#include "xv.h"
#include "models/strings.h"
#define STUB_STRCPY_OR_ABORT 1
#include "contracts/strcpy_or_abort.h"
#include "alg-md4.h"

static int md_inits, md_updates, md_finals; static MD4_CTX *md_ctx; static bool md_ok;
static const unsigned char *md_data; static size_t md_len; static unsigned char md_at0, md_at1, md_hash_k;
size_t g_j, g_k; const unsigned char *g_phr;
void MD4_Init (MD4_CTX *ctx) { md_inits++; md_ctx = ctx; md_ok = md_ok && md_updates == 0 && md_finals == 0; }
void MD4_Update (MD4_CTX *ctx, const void *data, size_t size)
{
  XV_STUBPRE ("C04", size == 0 || XV_R_OK (data, size), "MD4_Update: size readable bytes");
  md_ok = md_ok && ctx == md_ctx && md_inits == 1 && md_finals == 0;
  md_updates++; md_data = data; md_len = size;
  md_at0 = 2 * g_j + 1 < size ? ((const unsigned char *) data)[2 * g_j] : 0;
  md_at1 = 2 * g_j + 1 < size ? ((const unsigned char *) data)[2 * g_j + 1] : 0;
}
void MD4_Final (uint8_t result[16], MD4_CTX *ctx)
{
  XV_STUBPRE ("C04", XV_W_OK (result, 16), "MD4_Final: 16-byte result");
  md_ok = md_ok && ctx == md_ctx && md_updates == 1;
  md_finals++;
  XV_HAVOC_SLICE (result, 16);
  md_hash_k = result[g_k];
}
#include "lib/crypt-nthash.c"

void harness (void)
{
  XV_IN (size_t, phr_size, nondet_size);
  XV_ASSUME (phr_size < 512);
  unsigned char *phr = malloc (512);
  unsigned char *set = malloc (4);
  unsigned char *out = malloc (CRYPT_OUTPUT_SIZE);
  XV_IN (size_t, out_size, nondet_size);
  XV_IN (size_t, scr_size, nondet_size);
  XV_ASSUME (out_size <= CRYPT_OUTPUT_SIZE && scr_size <= 8192);
  /* Latent off-by-one, outside the property: the function's own guard lets
     out_size == 36 through although it writes 37 bytes ($3$ + $ + 32 + NUL).
     No caller can pass 36 - do_crypt always passes sizeof data->output = 384 -
     so C04 (stated over the API) is not affected; the value is excluded from
     this job's domain and recorded in DESIGN.md 11.5.  */
  XV_ASSUME (out_size != 36);
  crypt_nt_internal_t *scr = malloc (sizeof (crypt_nt_internal_t));   /* typed, constant size; arbitrary scr_size */
  XV_ASSUME (phr != NULL && set != NULL && out != NULL && scr != NULL);
  set[3] = 0;
  XV_IN (size_t, j, nondet_size);
  XV_IN (size_t, k, nondet_size);
  XV_IN (size_t, f, nondet_size);
  XV_ASSUME (j < phr_size && k < 16 && f < CRYPT_OUTPUT_SIZE);
  g_j = j; g_k = k; g_phr = phr;
  md_inits = md_updates = md_finals = 0; md_ok = true; md_len = 0; md_at0 = md_at1 = md_hash_k = 0;
  out[0] = '*'; out[1] = '0'; out[2] = 0;
  unsigned char o_f = out[f], p_j = phr[j];
  xv_str_reset ();
  errno = 0;
  crypt_nt_rn ((const char *) phr, phr_size, (const char *) set, 3, out, out_size, scr, scr_size);
  int err = errno;
  XV_ASSERT ("C04", f < out_size || out[f] == o_f, "nothing at or beyond out_size is written (arbitrary byte)");
  bool fits = out_size >= 3 + 32 + 1 && scr_size >= sizeof (crypt_nt_internal_t);
  bool tag = set[0] == '$' && set[1] == '3' && set[2] == '$';
  if (!fits || !tag)
    {
      XV_ASSERT ("C05", out[f] == o_f && md_inits == 0 && err == (fits ? EINVAL : ERANGE),
                 "short output or scratch: ERANGE; wrong tag: EINVAL; nothing hashed, output untouched");
      XV_CANARY ("failure path");
      return;
    }
  XV_CANARY ("success path");
  XV_ASSERT ("C02,C03,C07", md_ok && md_inits == 1 && md_updates == 1 && md_finals == 1 && md_data == scr->unipw && md_len == 2 * phr_size,
             "one MD4 computation (Init, one Update, Final on the scratch context) over 2 * phr_size bytes of the conversion buffer");
  XV_ASSERT ("C02,C03", md_at0 == p_j && md_at1 == 0, "the MD4 input is the UCS-2LE widening of the phrase: byte 2j is phrase[j], byte 2j+1 is zero (arbitrary j)");
  static const char hx[17] = "0123456789abcdef";
  XV_ASSERT ("C06,C01", out[0] == '$' && out[1] == '3' && out[2] == '$' && out[3] == '$' && out[36] == 0 && err == 0,
             "the result is $3$$ + 32 characters, NUL-terminated, errno untouched");
  XV_ASSERT ("C02,C06", out[4 + 2 * k] == (unsigned char) hx[md_hash_k >> 4] && out[4 + 2 * k + 1] == (unsigned char) hx[md_hash_k & 15],
             "digest byte k is shown as two lower-case hex digits, high nibble first (arbitrary k)");
}

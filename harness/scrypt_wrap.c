/* crypt_scrypt_rn (lib/crypt-scrypt.c): the $7$ front end of the yescrypt
   wrapper.  crypt_yescrypt_rn is replaced by a recording stub (its own
   contract is enforced by job yescrypt_wrapper).

   Contract, for every NUL-terminated setting and every size:
     o_size or CRYPT_OUTPUT_SIZE < set_size + 45   ->  ERANGE, nothing else
     not "$7$", or a byte from offset 14 on that is neither a scrypt salt
       character nor preceded by '$'            ->  EINVAL, nothing else
     otherwise exactly one call of crypt_yescrypt_rn with the caller's eight
       arguments, and nothing else is written.
   verify_salt reads setting[i] only for i < set_size (C04).  */
#include "crypt-port.h"
#include "xv.h"
#include "models/strings.h"
#include "lib/crypt-scrypt.c"

static int y_calls; static bool y_args_ok;
size_t g_fb;   /* ghost: first byte at or after offset 14 that is not a salt character */
static const char *g_phr, *g_set; static size_t g_pl, g_sl, g_os, g_ss; static uint8_t *g_out; static void *g_scr;
void crypt_yescrypt_rn (const char *phrase, size_t phr_size, const char *setting, size_t set_size,
                        uint8_t *output, size_t o_size, void *scratch, size_t s_size)
{
  y_calls++;
  y_args_ok = phrase == g_phr && phr_size == g_pl && setting == g_set && set_size == g_sl && output == g_out && o_size == g_os
              && scratch == g_scr && s_size == g_ss;
}

static bool spec_salt_char (unsigned char c)
{
  return (c >= 'a' && c <= 'z') || (c >= 'A' && c <= 'Z') || (c >= '.' && c <= '9') || c == '$';
}

void harness (void)
{
  XV_IN (size_t, n, nondet_size);
  XV_ASSUME (n <= 400);
  unsigned char *s = malloc (n + 1);          /* exact size: an over-read is an error */
  unsigned char *out = malloc (1), *phr = malloc (1), *scr = malloc (1);
  XV_ASSUME (s != NULL && out != NULL && phr != NULL && scr != NULL);
  XV_IN (size_t, fb, nondet_size);            /* first byte at or after 14 that is not a salt character (n if none) */
  XV_ASSUME (fb >= 14 && (fb <= n || n < 14));
  bool shape = true;
  for (size_t i = 0; i < 400; i++)   /* XV_UNWIND 400 */
    {
      if (i < n && s[i] == 0) shape = false;
      if (i >= 14 && i < n && i < fb && !spec_salt_char (s[i])) shape = false;
    }
  XV_ASSUME (shape && (n < 14 || fb >= n || !spec_salt_char (s[fb])));
  s[n] = 0;
  XV_IN (size_t, osz, nondet_size);
  XV_IN (size_t, ssz, nondet_size);
  XV_IN (size_t, psz, nondet_size);
  g_phr = (const char *) phr; g_set = (const char *) s; g_pl = psz; g_sl = n; g_os = osz; g_ss = ssz; g_out = out; g_scr = scr;
  y_calls = 0; errno = 0; g_fb = fb;
  out[0] = '*';
  crypt_scrypt_rn ((const char *) phr, psz, (const char *) s, n, out, osz, scr, ssz);
  bool fits = !(osz < n + 45 || CRYPT_OUTPUT_SIZE < n + 45);
  bool tag = n >= 3 && s[0] == '$' && s[1] == '7' && s[2] == '$';
  /* the salt field is well-formed: every byte from offset 14 is a salt character, or the first one that is not follows a '$' */
  bool salt_ok = n <= 14 || fb >= n || s[fb - 1] == '$';
  if (!fits)
    {
      XV_ASSERT ("C05,C04", y_calls == 0 && errno == ERANGE && out[0] == '*', "a setting that cannot fit the output with its hash: ERANGE, nothing computed or written");
      XV_CANARY ("erange");
    }
  else if (!tag || !salt_ok)
    {
      XV_ASSERT ("C05", y_calls == 0 && errno == EINVAL && out[0] == '*', "wrong tag or malformed salt field: EINVAL, nothing computed or written");
      XV_CANARY ("einval");
      if (tag) XV_CANARY ("malformed salt");
    }
  else
    {
      XV_ASSERT ("C07,C01", y_calls == 1 && y_args_ok && errno == 0 && out[0] == '*', "a well-formed $7$ setting is handed, with all eight arguments unchanged, to the yescrypt wrapper exactly once");
      XV_CANARY ("forwarded");
      if (fb < n) XV_CANARY ("forwarded with trailing bytes after the terminating $");
    }
}

/* crypt_sha1crypt_rn (lib/crypt-pbkdf1-sha1.c) in a lean, dedicated harness:
   any NUL-terminated setting shorter than SETOBJ, any output size up to
   CRYPT_OUTPUT_SIZE, any scratch size.  hmac_sha1_process_data is replaced
   by its contract (enforced by job hmac_sha1).

   Clauses:
   C04  nothing at or beyond out_size is written; the HMAC never reads the
        output buffer beyond out_size (the overrun repaired by "fix: ...
        sha1crypt" - a setting whose salt is longer than the 64 characters
        the first size check allows for - shows here if it returns);
        scratch is only used when it holds 20 bytes.
   C05  a refused request leaves the output untouched and sets EINVAL/ERANGE.
   C01/C03 the text of the first HMAC is <salt><magic><iterations> with the
        salt exactly the characters between the second '$'... and the result
        is $sha1$<iterations>$<the same salt>$<28 characters>: what was
        hashed is what is shown, character by character (arbitrary index).
   C11  the HMAC chain has max(iterations, 1) links; the printed iteration
        count is the parsed one, both times.
   C09  the scratch area is erased over its whole size on success.  */
#include "crypt-port.h"
#include "xv.h"
#include "models/strings.h"
#include "alg-hmac-sha1.h"
#include "alg-sha1.h"

#ifndef SETOBJ
#define SETOBJ 400
#endif
static unsigned long g_calls; static const unsigned char *g_key; static size_t g_keylen;
static const unsigned char *g_out; static size_t g_out_size, g_j; static unsigned char *g_scr;
static size_t h1_len; static unsigned char h1_at_j; static bool h_args_ok = true;
void hmac_sha1_process_data (const uint8_t *text, size_t text_len, const uint8_t *key, size_t key_len, void *resbuf)
{
  XV_STUBPRE ("C04", text_len == 0 || XV_R_OK (text, text_len), "hmac_sha1_process_data: text has text_len readable bytes");
  XV_STUBPRE ("C04", text != g_out || text_len <= g_out_size, "the HMAC input taken from the output buffer lies inside the caller's out_size bytes");
  XV_STUBPRE ("C04", XV_W_OK (resbuf, 20) && resbuf == (void *) g_scr, "the result goes to the 20-byte scratch area");
  h_args_ok = h_args_ok && key == g_key && key_len == g_keylen && (g_calls == 0 ? text == g_out : (text == g_scr && text_len == 20));
  if (g_calls == 0) { h1_len = text_len; h1_at_j = g_j < text_len ? text[g_j] : 0; }
  g_calls++;
  unsigned char *r = resbuf;
  r[0] = nondet_uchar (); r[1] = nondet_uchar (); r[2] = nondet_uchar (); r[3] = nondet_uchar (); r[4] = nondet_uchar ();
  r[5] = nondet_uchar (); r[6] = nondet_uchar (); r[7] = nondet_uchar (); r[8] = nondet_uchar (); r[9] = nondet_uchar ();
  r[10] = nondet_uchar (); r[11] = nondet_uchar (); r[12] = nondet_uchar (); r[13] = nondet_uchar (); r[14] = nondet_uchar ();
  r[15] = nondet_uchar (); r[16] = nondet_uchar (); r[17] = nondet_uchar (); r[18] = nondet_uchar (); r[19] = nondet_uchar ();
}
#include "lib/crypt-pbkdf1-sha1.c"

static bool is_b64 (unsigned char c) { return c == '.' || c == '/' || (c >= '0' && c <= '9') || (c >= 'A' && c <= 'Z') || (c >= 'a' && c <= 'z'); }

void harness (void)
{
  XV_IN (size_t, set_len, nondet_size);
  XV_ASSUME (set_len < SETOBJ);
  unsigned char *set = malloc (SETOBJ);
  unsigned char *phr = malloc (1);
  unsigned char *out = malloc (CRYPT_OUTPUT_SIZE);
  XV_IN (size_t, out_size, nondet_size);
  XV_IN (size_t, scr_size, nondet_size);
  XV_IN (size_t, phr_size, nondet_size);
  XV_ASSUME (out_size <= CRYPT_OUTPUT_SIZE && scr_size <= 64);
#ifdef SCR_CONST
  unsigned char *scr = malloc (64);   /* constant-size object, arbitrary scr_size <= 64 */
#else
  unsigned char *scr = malloc (scr_size);
#endif
  XV_ASSUME (set != NULL && phr != NULL && out != NULL && scr != NULL);
  /* NUL-terminated at set_len, no NUL before; the shape of the setting in ghost terms:
     digits at [6, 6+nd), '$', salt at [so, so+sl) of radix-64 characters, then '$' or the end */
  XV_IN (size_t, nd, nondet_size);
  XV_IN (size_t, sl, nondet_size);
  XV_ASSUME (nd <= 20 && sl < SETOBJ && sl <= 104);   /* more than 20 digits always overflow strtoul: the model over-approximates that case (not covered here) */
#ifdef XV_CASE_COND
  XV_ASSUME (XV_CASE_COND);     /* exhaustive split over the length of the digit field */
#endif
  size_t so = 6 + nd + 1;
  bool shape = true;
  for (size_t i = 0; i < SETOBJ; i++)   /* XV_UNWIND 400 */ /* SETOBJ <= 400 */
    {
      if (i < set_len && set[i] == 0) shape = false;
      if (i >= 6 && i < 6 + nd && !(set[i] >= '0' && set[i] <= '9')) shape = false;
      if (i >= so && i < so + sl && !is_b64 (set[i])) shape = false;
    }
  set[set_len] = 0;
  /* maximality of the two runs: what strtoul and strspn will stop at */
  bool wf = set_len >= 6 + nd && shape && !(set[6 + nd] >= '0' && set[6 + nd] <= '9');
  bool has_salt = wf && set[6 + nd] == '$' && so + sl <= set_len && !is_b64 (set[so + sl]);
  XV_ASSUME (set_len >= 6 && set[0] == '$' && set[1] == 's' && set[2] == 'h' && set[3] == 'a' && set[4] == '1' && set[5] == '$');
  /* do_crypt's guarantee: no white space or control characters in the setting (strtoul would skip them) */
  XV_ASSUME (wf && set[6] != '+' && set[6] != '-' && !(set[6] == ' ' || (set[6] >= 9 && set[6] <= 13)) && (has_salt || set[6 + nd] != '$'));
  xv_str_reset ();
  xv_str_register ((const char *) set, set_len);
  XV_IN (size_t, j, nondet_size);
  XV_ASSUME (j < CRYPT_OUTPUT_SIZE);
  g_j = j; xv_ghost_idx[0] = so + j; xv_ghost_idx[1] = so + sl;   /* strspn: instantiate "no stop before the result" at the salt byte checked and at the true end of the salt */
  g_calls = 0; h_args_ok = true; h1_len = 0; h1_at_j = 0; g_key = phr; g_keylen = phr_size; g_out = out; g_out_size = out_size; g_scr = scr;
  out[0] = '*'; out[1] = '0'; out[2] = 0;
  unsigned char o_j = out[j], s_j = j < sl ? set[so + j] : 0;
  xv_parse_n = 0; xv_dec_n = 0; xv_bzero_n = 0; xv_event_seq = 1;
  errno = 0;
  crypt_sha1crypt_rn ((const char *) phr, phr_size, (const char *) set, set_len, out, out_size, scr, scr_size);
  int err = errno;

  XV_ASSERT ("C04", j < out_size || out[j] == o_j, "nothing at or beyond out_size is written (arbitrary byte)");
  XV_ASSERT ("C03,C07", h_args_ok, "every HMAC is keyed with the whole phrase; the first takes its text from the output buffer, the others chain the 20-byte result");
  bool failed = out_size < 3 || out[0] == '*';
  if (failed)
    {
      XV_ASSERT ("C05", out[j] == o_j && (err == EINVAL || err == ERANGE), "a refused request leaves the output untouched and sets EINVAL or ERANGE");
      XV_ASSERT ("C05", g_calls == 0, "nothing is hashed for a refused request");
      XV_CANARY ("failure path");
      if (has_salt && sl >= 1 && nd >= 1 && err == ERANGE && out_size >= 110) XV_CANARY ("refused by the exact length check");
      return;
    }
  XV_CANARY ("success path");
  /* a digit field that overflows unsigned long is read as ULONG_MAX with errno ERANGE (strtoul) and hashed - 2^64 - 1 HMACs,
     so no caller ever sees that return; the clause is stated for the counts that do not overflow */
  XV_ASSERT ("C05,C10", has_salt && sl >= 1 && (err == 0 || (xv_parse_n == 1 && xv_parse_log[0].overflow && err == ERANGE)),
             "success only for $sha1$<digits>$<1 or more radix-64 characters>[$...], errno untouched");
  unsigned long it = xv_parse_n == 1 ? xv_parse_log[0].v : 0;
  /* an empty digit field is read as 0 (strtoul converts nothing and leaves the end pointer on the '$') */
  XV_ASSERT ("C11,C01", xv_parse_n == (nd > 0 ? 1 : 0) && xv_dec_n == 2 && xv_dec_log[0].v == it && xv_dec_log[1].v == it,
             "the iteration count hashed and the one shown are the one parsed from the setting");
  XV_ASSERT ("C11", g_calls == (it > 1 ? it : 1), "the HMAC chain has max (iterations, 1) links");
  unsigned pd = xv_dec_log[1].nd;
  /* what was hashed first: <salt><magic><iterations> */
  XV_ASSERT ("C01,C03", h1_len == sl + 6 + pd && (j >= sl || h1_at_j == s_j),
             "the first HMAC text starts with exactly the salt characters of the setting (arbitrary index)");
  /* what is shown: $sha1$<iterations>$<salt>$ + 28 */
  size_t n = 6 + pd + 1 + sl + 1 + 28;
  XV_ASSERT ("C04,C06", n < out_size && out[n] == 0 && out[0] == '$' && out[1] == 's' && out[2] == 'h' && out[3] == 'a' && out[4] == '1' && out[5] == '$'
             && out[6 + pd] == '$' && out[6 + pd + 1 + sl] == '$', "the result is $sha1$<iterations>$<salt>$<28 characters>, NUL-terminated inside out_size");
  XV_ASSERT ("C01,C03,C06", j >= sl || out[6 + pd + 1 + j] == s_j, "the salt shown is, character by character, the salt that was hashed (arbitrary index)");
  XV_ASSERT ("C06,C02", j >= 28 || is_b64 (out[n - 28 + j]), "28 digest characters from ./0-9A-Za-z (arbitrary index)");
  XV_ASSERT ("C09", scr_size >= 20 && xv_bzero_n == 1 && xv_bzeroed_after (scr, scr_size, 0), "the scratch area is erased over its whole size");
  if (sl > 64) XV_CANARY ("salt longer than CRYPT_SHA1_SALT_LENGTH");
#ifdef XV_BIGDEC   /* cases with an 11..20-digit field (thorough tier) */
  if (pd > 10) XV_CANARY ("iteration count of more than 10 digits");
#endif
}

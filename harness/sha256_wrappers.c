/* C09 / C16: the sanitising wrappers of lib/alg-sha256.c and the key
   preparation of HMAC-SHA256.

   Every public function of the file is a thin wrapper that calls the real
   worker (_SHA256_Update, _SHA256_Final, _HMAC_SHA256_*) with stack scratch
   buffers and then erases them.  Here the workers are replaced by recording
   stubs and explicit_bzero by its ghost event log: each wrapper must call its
   worker exactly once with the caller's arguments and must erase every
   scratch buffer it handed out, over its full size - and the context, where
   the function finalises it.

   H_init: the real _HMAC_SHA256_Init against RFC 2104's key rule, as a
   transcript over the SHA-256 workers (K' = K if Klen <= 64 else SHA256 (K);
   inner pad K' ^ 0x36.., outer pad K' ^ 0x5c..).  */
#include "crypt-port.h"
#include "xv.h"
#include "models/strings.h"
#include "contracts/digest_stubs.h"
#include "lib/alg-sha256.c"

#ifndef XV_NATIVE
#define NEV 8
struct wev { int fn; const void *a, *b, *c, *d; size_t n; unsigned char at_j; unsigned seq; };
static struct wev wevs[NEV]; static unsigned nwev; static size_t g_j;
enum { F_UPD = 1, F_FIN, F_HINIT, F_HUPD, F_HFIN };
static void rec (int fn, const void *a, const void *b, const void *c, const void *d, size_t n, unsigned char at_j)
{
  if (nwev < NEV)
    { wevs[nwev].fn = fn; wevs[nwev].a = a; wevs[nwev].b = b; wevs[nwev].c = c; wevs[nwev].d = d; wevs[nwev].n = n;
      wevs[nwev].at_j = at_j; wevs[nwev].seq = xv_event_seq++; nwev++; }
}
void upd_stub (SHA256_CTX *ctx, const void *in, size_t len, uint32_t tmp32[72])
{
  XV_STUBPRE ("C04", XV_W_OK (tmp32, 288) && (len == 0 || XV_R_OK (in, len)), "_SHA256_Update: 288-byte scratch, len readable input bytes");
  rec (F_UPD, ctx, in, tmp32, 0, len, (len == 64 && g_j < 64) ? ((const unsigned char *) in)[g_j] : 0);
}
static unsigned char fin_dig_j;
void fin_stub (uint8_t digest[32], SHA256_CTX *ctx, uint32_t tmp32[72])
{
  XV_STUBPRE ("C04", XV_W_OK (tmp32, 288) && XV_W_OK (digest, 32), "_SHA256_Final: 288-byte scratch, 32-byte result");
  XV_HAVOC_SLICE (digest, 32);
  if (g_j < 32) fin_dig_j = digest[g_j];
  rec (F_FIN, digest, ctx, tmp32, 0, 0, 0);
}
void hinit_stub (HMAC_SHA256_CTX *ctx, const void *K, size_t Klen, uint32_t tmp32[72], uint8_t pad[64], uint8_t khash[32])
{ rec (F_HINIT, ctx, K, tmp32, pad, Klen, 0); (void) khash; }
#ifdef P_pbkdf2
#define XV_ND4(d, o) (d)[(o)] = nondet_uchar (); (d)[(o) + 1] = nondet_uchar (); (d)[(o) + 2] = nondet_uchar (); (d)[(o) + 3] = nondet_uchar ()
#define XV_ND16(d, o) XV_ND4 (d, o); XV_ND4 (d, (o) + 4); XV_ND4 (d, (o) + 8); XV_ND4 (d, (o) + 12)
#define XV_ND32(d) XV_ND16 (d, 0); XV_ND16 (d, 16)
/* PBKDF2: the workers are called inside loops whose contracts havoc what the
   loops write, so these stubs keep no log: the first (pre-loop) Init call
   leaves the addresses of the locals in dedicated ghosts.  */
static const void *p_ctx0, *p_tmp32, *p_u; static size_t p_klen; static const void *p_key; static unsigned p_inits; static _Bool p_keys_ok;
void p_hinit_stub (HMAC_SHA256_CTX *ctx, const void *K, size_t Klen, uint32_t tmp32[72], uint8_t pad[64], uint8_t khash[32])
{
  XV_STUBPRE ("C04", XV_W_OK (ctx, sizeof *ctx) && XV_W_OK (tmp32, 288) && XV_W_OK (pad, 64) && XV_W_OK (khash, 32), "_HMAC_SHA256_Init: context, scratch, pad and key-hash buffers");
  if (p_inits == 0) { p_tmp32 = tmp32; p_u = pad; }
  p_ctx0 = ctx; p_keys_ok = p_keys_ok && K == p_key && Klen == p_klen && tmp32 == p_tmp32 && pad == p_u; if (p_inits < 2) p_inits++;

}
void p_hupd_stub (HMAC_SHA256_CTX *ctx, const void *in, size_t len, uint32_t tmp32[72])
{
  XV_STUBPRE ("C04", XV_W_OK (ctx, sizeof *ctx) && XV_W_OK (tmp32, 288) && (len == 0 || XV_R_OK (in, len)), "_HMAC_SHA256_Update: context, scratch, len readable bytes");

}
void p_hfin_stub (uint8_t digest[32], HMAC_SHA256_CTX *ctx, uint32_t tmp32[72], uint8_t ihash[32])
{
  XV_STUBPRE ("C04", XV_W_OK (digest, 32) && XV_W_OK (ctx, sizeof *ctx) && XV_W_OK (tmp32, 288) && XV_W_OK (ihash, 32), "_HMAC_SHA256_Final: result, context, scratch, inner hash");
  XV_ND32 (digest);   /* loop-free havoc: called inside contracted loops */
}
void p_upd_stub (SHA256_CTX *ctx, const void *in, size_t len, uint32_t tmp32[72])
{
  XV_STUBPRE ("C04", XV_W_OK (ctx, sizeof *ctx) && XV_W_OK (tmp32, 288) && (len == 0 || XV_R_OK (in, len)), "_SHA256_Update: context, scratch, len readable bytes");
}
void p_vect_stub (uint8_t *dst, const uint32_t *src, size_t n)
{
  XV_STUBPRE ("C04", (n == 0 || (XV_W_OK (dst, 4 * n) && XV_R_OK (src, 4 * n))), "cpu_to_be32_vect: 4*n writable result bytes, n readable words");
  XV_STUBPRE ("C04", n == 8, "cpu_to_be32_vect: the digest-sized call (n == 8) this stub models");
  if (n == 8) { XV_ND32 (dst); }
  else __CPROVER_assume (0);   /* every call site in this file passes 8 (asserted) */
}
void p_transform_stub (uint32_t state[8], const uint8_t block[64], uint32_t W[64], uint32_t S[8])
{
  XV_STUBPRE ("C04", XV_W_OK (state, 32) && XV_R_OK (block, 64) && XV_W_OK (W, 256) && XV_W_OK (S, 32), "SHA256_Transform: state, block, schedule and working state");
  state[0] = nondet_u32 (); state[1] = nondet_u32 (); state[2] = nondet_u32 (); state[3] = nondet_u32 ();
  state[4] = nondet_u32 (); state[5] = nondet_u32 (); state[6] = nondet_u32 (); state[7] = nondet_u32 ();
}
#endif
void hupd_stub (HMAC_SHA256_CTX *ctx, const void *in, size_t len, uint32_t tmp32[72])
{ rec (F_HUPD, ctx, in, tmp32, 0, len, 0); }
void hfin_stub (uint8_t digest[32], HMAC_SHA256_CTX *ctx, uint32_t tmp32[72], uint8_t ihash[32])
{ rec (F_HFIN, digest, ctx, tmp32, ihash, 0, 0); }

/* some logged explicit_bzero erased exactly [p, p+n) after event number seq */
static bool wiped (const void *p, size_t n, unsigned seq) { return xv_bzeroed_after (p, n, seq); }
#endif

void harness (void)
{
  XV_IN (size_t, len, nondet_size);
  XV_ASSUME (len <= XV_MAXOBJ);
  XV_IN_BYTES (in, input, len, 0);
  unsigned char *dig = malloc (32);
  XV_ASSUME (dig != NULL);
  XV_IN (size_t, j, nondet_size);
  XV_ASSUME (j < 64);
  g_j = j; nwev = 0; xv_bzero_n = 0; xv_event_seq = 1;
#if defined W_update
  SHA256_CTX *ctx = malloc (sizeof *ctx); XV_ASSUME (ctx != NULL);
  SHA256_Update (ctx, in, len);
  XV_ASSERT ("C16", nwev == 1 && wevs[0].fn == F_UPD && wevs[0].a == ctx && wevs[0].b == in && wevs[0].n == len,
             "SHA256_Update is one call of the worker with the caller's context, data and length");
  XV_ASSERT ("C09", xv_bzero_n == 1 && wiped (wevs[0].c, 288, wevs[0].seq), "the message-schedule scratch (288 bytes) is erased afterwards");
#elif defined W_final
  SHA256_CTX *ctx = malloc (sizeof *ctx); XV_ASSUME (ctx != NULL);
  SHA256_Final (dig, ctx);
  XV_ASSERT ("C16", nwev == 1 && wevs[0].fn == F_FIN && wevs[0].a == dig && wevs[0].b == ctx, "SHA256_Final is one call of the worker");
  XV_ASSERT ("C09", xv_bzero_n == 2 && wiped (ctx, sizeof (SHA256_CTX), wevs[0].seq) && wiped (wevs[0].c, 288, wevs[0].seq),
             "the whole context and the scratch are erased after the digest is written");
#elif defined W_buf
  SHA256_Buf (in, len, dig);
  XV_ASSERT ("C16", nwev == 2 && wevs[0].fn == F_UPD && wevs[0].b == in && wevs[0].n == len && wevs[1].fn == F_FIN && wevs[1].a == dig
             && wevs[1].b == wevs[0].a, "SHA256_Buf: one update with the whole input, one final, on one local context");
  XV_ASSERT ("C09", xv_bzero_n == 2 && wiped (wevs[0].a, sizeof (SHA256_CTX), wevs[1].seq) && wiped (wevs[0].c, 288, wevs[1].seq),
             "the local context and the scratch are erased");
#elif defined W_hmac_init
  HMAC_SHA256_CTX *h = malloc (sizeof *h); XV_ASSUME (h != NULL);
  HMAC_SHA256_Init (h, in, len);
  XV_ASSERT ("C16", nwev == 1 && wevs[0].fn == F_HINIT && wevs[0].a == h && wevs[0].b == in && wevs[0].n == len, "one call of the worker with the caller's key");
  XV_ASSERT ("C09", xv_bzero_n == 3 && wiped (wevs[0].c, 288, wevs[0].seq) && wiped (wevs[0].d, 64, wevs[0].seq),
             "scratch, key hash (32 bytes) and key pad (64 bytes) are erased");
  XV_ASSERT ("C09", xv_bzero_log[0].n + xv_bzero_log[1].n + xv_bzero_log[2].n == 288 + 32 + 64, "exactly those three buffers, over their full sizes");
#elif defined W_hmac_final
  HMAC_SHA256_CTX *h = malloc (sizeof *h); XV_ASSUME (h != NULL);
  HMAC_SHA256_Final (dig, h);
  XV_ASSERT ("C16", nwev == 1 && wevs[0].fn == F_HFIN && wevs[0].a == dig && wevs[0].b == h, "one call of the worker");
  XV_ASSERT ("C09", xv_bzero_n == 3 && wiped (h, sizeof (HMAC_SHA256_CTX), wevs[0].seq) && wiped (wevs[0].c, 288, wevs[0].seq)
             && wiped (wevs[0].d, 32, wevs[0].seq), "the HMAC context, the scratch and the inner hash are erased");
#elif defined W_hmac_buf
  XV_IN (size_t, klen, nondet_size);
  XV_ASSUME (klen <= XV_MAXOBJ);
  unsigned char *key = malloc (klen); XV_ASSUME (key != NULL);
  HMAC_SHA256_Buf (key, klen, in, len, dig);
  XV_ASSERT ("C16", nwev == 3 && wevs[0].fn == F_HINIT && wevs[0].b == key && wevs[0].n == klen
             && wevs[1].fn == F_HUPD && wevs[1].a == wevs[0].a && wevs[1].b == in && wevs[1].n == len
             && wevs[2].fn == F_HFIN && wevs[2].a == dig && wevs[2].b == wevs[0].a,
             "HMAC_SHA256_Buf: init with the key, one update with the whole input, final, on one local context");
  XV_ASSERT ("C09", xv_bzero_n == 3 && wiped (wevs[0].a, sizeof (HMAC_SHA256_CTX), wevs[2].seq) && wiped (wevs[0].c, 288, wevs[2].seq)
             && wiped (wevs[0].d, 96, wevs[2].seq), "the local context, the scratch and the 96-byte pad/hash buffer are erased");
#elif defined W_hmac_update
  HMAC_SHA256_CTX *h = malloc (sizeof *h); XV_ASSUME (h != NULL);
  HMAC_SHA256_Update (h, in, len);
  XV_ASSERT ("C16", nwev == 1 && wevs[0].fn == F_HUPD && wevs[0].a == h && wevs[0].b == in && wevs[0].n == len, "one call of the worker with the caller's data");
  XV_ASSERT ("C09", xv_bzero_n == 1 && wiped (wevs[0].c, 288, wevs[0].seq), "the scratch is erased");
#elif defined P_pbkdf2
  /* passwd = `in` (len), salt, c, dkLen symbolic and unbounded; both the
     single-iteration fast path and the generic path.  */
  XV_IN (size_t, saltlen, nondet_size);
  XV_ASSUME (saltlen <= XV_MAXOBJ);
  unsigned char *salt = malloc (saltlen); XV_ASSUME (salt != NULL);
  XV_IN (size_t, dklen, nondet_size);
  XV_ASSUME (dklen <= XV_MAXOBJ);
  unsigned char *buf = malloc (dklen); XV_ASSUME (buf != NULL);
  XV_IN (uint64_t, c, nondet_u64);
  XV_ASSUME (c >= 1 && c < UINT64_MAX);
  p_inits = 0; p_keys_ok = 1; p_key = in; p_klen = len;
  PBKDF2_SHA256 (in, len, salt, saltlen, c, buf, dklen);
  XV_ASSERT ("C16", p_inits >= 1 && p_keys_ok, "every HMAC key preparation uses the password as the key, and the same scratch buffers");
  XV_ASSERT ("C09", wiped (p_tmp32, 288, 0) && wiped (p_u, 96, 0), "the schedule scratch and the pad/hash union are erased on every path");
  XV_ASSERT ("C09", xv_bzero_n == 3 || xv_bzero_n == 7, "three wipes on the single-iteration path, seven on the generic one");
  if (xv_bzero_n == 3)
    {
      XV_ASSERT ("C09", wiped (p_ctx0, sizeof (HMAC_SHA256_CTX), 0), "fast path: the one keyed HMAC context is erased");
      XV_CANARY ("fast path");
    }
  else
    {
      XV_ASSERT ("C09", wiped (p_ctx0, sizeof (HMAC_SHA256_CTX), 0)
                 && xv_bzero_log[0].n + xv_bzero_log[1].n + xv_bzero_log[4].n == 3 * sizeof (HMAC_SHA256_CTX)
                 && xv_bzero_log[0].p != xv_bzero_log[1].p && xv_bzero_log[1].p != xv_bzero_log[4].p && xv_bzero_log[0].p != xv_bzero_log[4].p
                 && xv_bzero_log[2].n == 32 && xv_bzero_log[3].n == 32 && xv_bzero_log[2].p != xv_bzero_log[3].p,
                 "generic path: all three keyed HMAC contexts and both 32-byte block buffers are erased");
      XV_CANARY ("generic path");
    }
#elif defined H_init
  /* real _HMAC_SHA256_Init; key = `in` (Klen = len) */
  HMAC_SHA256_CTX *h = malloc (sizeof *h); XV_ASSUME (h != NULL);
  uint32_t *tmp32 = malloc (288); uint8_t *pad = malloc (64), *khash = malloc (32);
  XV_ASSUME (tmp32 && pad && khash);
  _HMAC_SHA256_Init (h, in, len, tmp32, pad, khash);
  bool longkey = len > 64;
  unsigned b = longkey ? 2 : 0;
  if (longkey)
    {
      XV_ASSERT ("C16,C02", nwev >= 2 && wevs[0].fn == F_UPD && wevs[0].b == in && wevs[0].n == len && wevs[1].fn == F_FIN && wevs[1].a == khash,
                 "a key longer than the block size is replaced by SHA256 (key)");
      XV_CANARY ("long key path");
    }
  else
    XV_CANARY ("short key path");
  unsigned char kj = longkey ? (j < 32 ? fin_dig_j : 0) : (j < len ? in[j] : 0);
  XV_ASSERT ("C16,C02", nwev == b + 2 && wevs[b].fn == F_UPD && wevs[b].a == &h->ictx && wevs[b].n == 64
             && wevs[b].at_j == (unsigned char) (kj ^ 0x36), "the inner context absorbs K' XOR ipad (arbitrary byte)");
  XV_ASSERT ("C16,C02", wevs[b + 1].fn == F_UPD && wevs[b + 1].a == &h->octx && wevs[b + 1].n == 64
             && wevs[b + 1].at_j == (unsigned char) (kj ^ 0x5c), "the outer context absorbs K' XOR opad (arbitrary byte)");
#endif
  XV_CANARY ("end");
}

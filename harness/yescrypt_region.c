/* C15: alloc_region / free_region / init_region (lib/alg-yescrypt-platform.c,
   the file alg-yescrypt-opt.c #includes) against a may-fail model of
   mmap/munmap with a ghost ledger of the live mapping.

   Region invariant Inv (r):  r->base == NULL and all sizes 0, or r->base is
   the base of the live mapping and r->base_size is its size,
   r->aligned == r->base, r->aligned_size <= r->base_size.

   alloc_region (r, size): ensures Inv (r); result == r->aligned; on failure
     (NULL) nothing is mapped; on success aligned_size == size.
   free_region (r): requires Inv (r); returns 0 with nothing mapped and r
     reset, or -1 (munmap failed) with r unchanged - still owning the mapping.  */
#include "crypt-port.h"
#include "xv.h"
#include <sys/mman.h>
#include "alg-yescrypt.h"

#ifndef XV_NATIVE
static void *live_base; static size_t live_size; static unsigned live_n, mmap_calls, munmap_calls;
static bool munmap_failed;

void *mmap (void *addr, size_t len, int prot, int flags, int fd, off_t off)
{
  mmap_calls++;
  XV_STUBPRE ("C15", addr == NULL && fd == -1 && off == 0 && (flags & MAP_ANON) && (flags & MAP_PRIVATE) && len > 0,
              "mmap: anonymous private mapping of a non-zero length");
  (void) prot;
  if (nondet_bool ()) { errno = ENOMEM; return MAP_FAILED; }
  XV_STUBPRE ("C15", live_n == 0, "at most one mapping is live per region (the previous one was released or its acquisition failed)");
  void *p = malloc (len < 4096 ? len : 4096);     /* the object's contents are not accessed here */
  __CPROVER_assume (p != NULL);
  live_base = p; live_size = len; live_n++;
  return p;
}

int munmap (void *addr, size_t len)
{
  munmap_calls++;
  XV_STUBPRE ("C15", live_n == 1 && addr == live_base && len == live_size, "munmap: exactly the live mapping, with its exact size");
  munmap_failed = nondet_bool ();
  if (munmap_failed) { errno = EINVAL; return -1; }
  live_n = 0; live_base = NULL; live_size = 0;
  return 0;
}
#endif

#include "lib/alg-yescrypt-platform.c"

static bool inv (const yescrypt_region_t *r)
{
  if (r->base == NULL)
    return r->aligned == NULL && r->base_size == 0 && r->aligned_size == 0 && live_n == 0;
  return live_n == 1 && r->base == live_base && r->base_size == live_size && r->aligned == r->base
         && r->aligned_size <= r->base_size;
}

void harness (void)
{
  yescrypt_region_t r;
  XV_IN (size_t, size, nondet_size);
  XV_ASSUME (size > 0);
  live_n = 0; mmap_calls = munmap_calls = 0;
#ifdef U_alloc
  void *p = alloc_region (&r, size);
  XV_ASSERT ("C15", inv (&r) && p == r.aligned, "alloc_region establishes the region invariant and returns the aligned pointer");
  XV_ASSERT ("C15", p != NULL || live_n == 0, "a failed allocation leaves nothing mapped");
  XV_ASSERT ("C15", p == NULL || (r.aligned_size == size && r.base_size >= size), "a successful one records the requested size");
  XV_ASSERT ("C15", mmap_calls >= 1 && mmap_calls <= 2, "one mapping attempt, plus one fallback without huge pages");
  if (p) XV_CANARY ("allocation succeeded"); else XV_CANARY ("allocation failed");
#else
  /* an arbitrary region satisfying the invariant */
  XV_IN (_Bool, owns, nondet_bool);
  if (owns)
    {
      live_base = malloc (16); XV_ASSUME (live_base != NULL);
      XV_IN (size_t, bs, nondet_size);
      XV_ASSUME (bs >= size);
      live_size = bs; live_n = 1;
      r.base = r.aligned = live_base; r.base_size = bs; r.aligned_size = size;
    }
  else
    init_region (&r);
  XV_ASSUME (inv (&r));
  yescrypt_region_t before = r;
  int rc = free_region (&r);
  if (rc == 0)
    {
      XV_ASSERT ("C15", live_n == 0 && r.base == NULL && r.aligned == NULL && r.base_size == 0 && r.aligned_size == 0,
                 "free_region releases the mapping (exactly once) and resets the region");
      XV_CANARY ("release succeeded");
    }
  else
    {
      XV_ASSERT ("C15", owns && munmap_failed && live_n == 1 && r.base == before.base && r.base_size == before.base_size,
                 "free_region fails only when munmap fails, and the region then still records the mapping");
      XV_CANARY ("release failed");
    }
  XV_ASSERT ("C15", munmap_calls == (owns ? 1u : 0u), "munmap is called exactly for an owned mapping");
#endif
}

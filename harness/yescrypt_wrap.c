/* crypt_yescrypt_rn (lib/crypt-yescrypt.c), the wrapper shared by the $y$ and
   $7$ methods, against the L0 method contract, the sibling-method clauses of
   C19 and the failure clauses of C15.  yescrypt_init_local, yescrypt_r,
   yescrypt_free_local (lib/alg-yescrypt-*.c) are replaced by contract stubs
   with a ghost mapping ledger:
     yescrypt_init_local (local)   may fail (non-zero, nothing owned) or makes
                                   `local` an owned region
     yescrypt_r (.., buf, buflen)  requires an owned `local`; returns NULL
                                   (buf untouched) or buf holding a
                                   NUL-terminated string shorter than buflen
     yescrypt_free_local (local)   requires an owned `local`; releases it
                                   (0) or fails (non-zero, still owned)
   These stubs are assumptions on the yescrypt core (not enforced against its
   body: the core is outside this family's reach, DESIGN.md section 7).  */
#include "crypt-port.h"
#include "xv.h"
#include "models/strings.h"
#define STUB_STRCPY_OR_ABORT 1
#include "contracts/strcpy_or_abort.h"
#include "alg-yescrypt.h"
#include "lib/crypt-yescrypt.c"

#ifndef XV_NATIVE
static int yl_owned;            /* ledger: 1 while `local` holds a mapping */
static const void *yl_local;
static int yr_calls; static bool yr_args_ok, yr_failed;
static const uint8_t *yr_passwd, *yr_setting; static size_t yr_passwdlen;
static int init_calls, free_calls; static bool init_failed, free_failed;

int yescrypt_init_local (yescrypt_local_t *local)
{
  init_calls++;
  XV_STUBPRE ("C04", XV_W_OK (local, sizeof *local), "yescrypt_init_local: local is writable");
  init_failed = nondet_bool ();
  if (init_failed) { errno = ENOMEM; return -1; }
  local->base = local->aligned = NULL; local->base_size = local->aligned_size = 0;
  yl_owned = 1; yl_local = local;
  return 0;
}

uint8_t *yescrypt_r (const yescrypt_shared_t *shared, yescrypt_local_t *local,
                     const uint8_t *passwd, size_t passwdlen, const uint8_t *setting,
                     const yescrypt_binary_t *key, uint8_t *buf, size_t buflen)
{
  yr_calls++;
  XV_STUBPRE ("C15,C04", yl_owned && local == yl_local, "yescrypt_r: local was initialised and is still owned");
  yr_args_ok = shared == NULL && key == NULL && passwd == yr_passwd && passwdlen == yr_passwdlen && setting == yr_setting
               && buflen <= 384 && XV_W_OK (buf, buflen);
  yr_failed = nondet_bool ();
  if (yr_failed) return NULL;
  size_t n = nondet_size ();
  __CPROVER_assume (n >= 1 && n < buflen);
  for (size_t i = 0; i < 384; i++)   /* XV_UNWIND 384 */
    if (i <= n)
      {
        char c = nondet_char ();
        __CPROVER_assume (c != 0 && (i != 0 || c == '$'));
        buf[i] = i == n ? 0 : (uint8_t) c;
      }
  return buf;
}

int yescrypt_free_local (yescrypt_local_t *local)
{
  free_calls++;
  XV_STUBPRE ("C15", yl_owned && local == yl_local, "yescrypt_free_local: releases a region that is owned (never twice)");
  free_failed = nondet_bool ();
  if (free_failed) return -1;
  yl_owned = 0;
  return 0;
}
#endif

void harness (void)
{
  XV_IN (size_t, phr_len, nondet_size);
  XV_IN (size_t, set_len, nondet_size);
  XV_ASSUME (phr_len < 512 && set_len < 512);
  XV_IN_BYTES_FIXED (phr, phrase, phr_len, 512);
  XV_IN_BYTES_FIXED (set, setting, set_len, 512);
  phr[phr_len] = 0; set[set_len] = 0;
  bool strs_ok = true;
  for (size_t k = 0; k < 512; k++)   /* XV_UNWIND 512 */
    {
      if (k < phr_len && phr[k] == 0) strs_ok = false;
      if (k < set_len && (set[k] == 0 || !xv_passwd_safe (set[k]))) strs_ok = false;
    }
  XV_ASSUME (strs_ok);
  /* get_hashfn's guarantee: one of the two prefixes this function serves */
  XV_IN (_Bool, is7, nondet_bool);
  XV_ASSUME (set_len >= 3 && set[0] == '$' && set[2] == '$' && set[1] == (is7 ? '7' : 'y'));
#if !INCLUDE_scrypt
  XV_ASSUME (!is7);     /* a disabled method has no table entry: do_crypt cannot dispatch it */
#endif
#if !INCLUDE_yescrypt
  XV_ASSUME (is7);
#endif
  xv_str_reset ();
  xv_str_register ((const char *) phr, phr_len);
  xv_str_register ((const char *) set, set_len);
  unsigned char *out = malloc (384);
  struct { _Alignas (16) crypt_yescrypt_internal_t s; unsigned char pad[8192 - sizeof (crypt_yescrypt_internal_t)]; } *scr = malloc (8192);
  XV_ASSUME (out != NULL && scr != NULL);
  out[0] = '*'; out[1] = '0'; out[2] = 0;
  XV_IN (size_t, gk, nondet_size);
  XV_ASSUME (gk < 384);
  unsigned char o_gk = out[gk];
  yl_owned = 0; yr_calls = init_calls = free_calls = 0;
  yr_passwd = phr; yr_passwdlen = phr_len; yr_setting = set;
  errno = 0;
  crypt_yescrypt_rn ((const char *) phr, phr_len, (const char *) set, set_len, out, 384, scr, 8192);
  int err = errno;
  bool failed = out[0] == '*';

  /* C19: an enabled method is never refused because of its sibling; with the
     size guard passed, the request reaches the yescrypt core */
  bool fits = set_len + 1 + 43 + 1 <= 384;
  XV_ASSERT ("C19,C10", !fits || init_calls == 1,
             "a $y$ / $7$ request of an enabled method that fits the output reaches the yescrypt core (never refused by the sibling guards)");
  XV_ASSERT ("C05,C13", fits || (failed && err == ERANGE && init_calls == 0), "a setting too long for the output is refused with ERANGE");
  /* C15: the mapping ledger */
  XV_ASSERT ("C15", yr_calls <= 1 && free_calls <= 1 && (yr_calls == 0 || yr_args_ok),
             "at most one hash computation and one release, with the caller's phrase and setting");
  XV_ASSERT ("C15", init_calls == 0 || init_failed || free_calls == 1,
             "a region that was acquired is released exactly once, whatever the outcome of the computation");
  XV_ASSERT ("C15", yl_owned == 0 || free_failed, "nothing is still owned at return unless the release itself failed");
  if (failed)
    {
      XV_ASSERT ("C05,C15", out[gk] == o_gk, "a failing request leaves the output (failure token) untouched");
      XV_ASSERT ("C05,C15", err == EINVAL || err == ERANGE || err == ENOMEM || free_failed,
                 "a failing request sets errno to EINVAL, ERANGE or ENOMEM");
      XV_ASSERT ("C15", !fits || init_failed || yr_failed || free_failed, "failure only for an allocation, computation or release failure");
      XV_CANARY ("failure path");
      if (init_failed) XV_CANARY ("allocation failure path");
      if (free_calls == 1 && free_failed) XV_CANARY ("release failure path");
    }
  else
    {
      XV_ASSERT ("C15,C05", !init_failed && !yr_failed && !free_failed && yr_calls == 1, "success only when every step succeeded");
      XV_ASSERT ("C06,C04", out[0] == '$', "the result is the core's string");
      bool nul = false;
      for (size_t k = 0; k < 384; k++)   /* XV_UNWIND 384 */
        if (out[k] == 0) nul = true;
      XV_ASSERT ("C04,C06", nul, "NUL-terminated inside the 384-byte output");
      /* C01: the result, used as the setting of the next call, must pass this
         function's own size guard (set_size + 1 + 43 + 1 <= 384), otherwise
         the stored hash can never be verified */
      {
        size_t n = 0; bool e = false;
        for (size_t k = 0; k < 384; k++)   /* XV_UNWIND 384 */
          if (!e) { if (out[k] == 0) e = true; else n++; }
        XV_ASSERT ("C01", n + 1 + 43 + 1 <= 384,
                   "a produced hash is short enough to be accepted as a setting by the same size guard (round trip)");
      }
      XV_CANARY ("success path");
    }
}

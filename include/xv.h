/* xv.h - helper layer shared by every harness, stub and model in /verif.

   One harness text is used three ways:
     - CBMC proof mode (default): inputs are nondeterministic, buffers are
       malloc'd with symbolic size, obligations are __CPROVER_assert.
     - CBMC small mode (-DXV_SMALL): same, but every input length is assumed
       to fit its trace window, so a counterexample is captured completely.
     - native replay mode (-DXV_NATIVE): inputs come from a replay file
       produced from the verifier's counterexample, the *real* callees are
       linked instead of stubs, obligations are evaluated on the real run.

   Obligation naming convention (parsed by bin/xv):
     "[C04,C06] text"   obligation carrying the listed properties
     "CANARY text"      reachability canary: MUST FAIL, otherwise the run is
                        vacuous and reported as a tool error (exit 2)
     "STUBPRE[C04] text" a callee-contract precondition asserted at a call site
*/
#ifndef XV_H
#define XV_H 1

#include <stddef.h>
#include <stdint.h>
#include <stdbool.h>
#include <stdlib.h>
#include <string.h>
#include <errno.h>

#ifndef XV_WIN
#define XV_WIN 96          /* bytes of each input buffer captured in traces */
#endif
#ifndef XV_MAXOBJ
#define XV_MAXOBJ 100000   /* upper bound on symbolic object sizes (CBMC's
                              max malloc size is far larger; this only keeps
                              size arithmetic away from SIZE_MAX) */
#endif

#ifndef XV_NATIVE
/* ------------------------------------------------------------------ CBMC */

unsigned char  nondet_uchar (void);
char           nondet_char (void);
int            nondet_int (void);
unsigned int   nondet_uint (void);
unsigned long  nondet_ulong (void);
size_t         nondet_size (void);
_Bool          nondet_bool (void);
uint32_t       nondet_u32 (void);
uint64_t       nondet_u64 (void);

#define XV_ASSUME(c)          __CPROVER_assume (c)
#define XV_ASSERT(tag, c, msg) __CPROVER_assert ((c), "[" tag "] " msg)
#define XV_CANARY(msg)        __CPROVER_assert (0, "CANARY " msg)
#define XV_STUBPRE(tag, c, msg) __CPROVER_assert ((c), "STUBPRE[" tag "] " msg)

/* Scalar inputs: the assignment to a variable called in_<name> is what the
   driver extracts from the counterexample trace.  */
#define XV_IN(type, name, nondetfn) type in_##name = nondetfn (); type name = in_##name

/* Byte-buffer input of symbolic length `len` (already an input): allocates
   len+extra bytes, content arbitrary, and records a window of the first
   XV_WIN bytes for trace extraction.  */
#ifdef XV_SMALL
#define XV_SMALL_LIMIT(len) XV_ASSUME ((len) <= XV_WIN)
#else
#define XV_SMALL_LIMIT(len) ((void)0)
#endif

#define XV_IN_BYTES(ptr, name, len, extra)                                  \
  XV_SMALL_LIMIT (len);                                                     \
  unsigned char *ptr = malloc ((len) + (extra));                            \
  XV_ASSUME (ptr != NULL);                                                  \
  unsigned char inw_##name[XV_WIN];                                         \
  XV_WINDOW (inw_##name, ptr, len)

/* same, in an object of constant size `cap` (len < cap) */
#define XV_IN_BYTES_FIXED(ptr, name, len, cap)                              \
  XV_SMALL_LIMIT (len);                                                     \
  unsigned char *ptr = malloc (cap);                                        \
  XV_ASSUME (ptr != NULL);                                                  \
  unsigned char inw_##name[XV_WIN];                                         \
  XV_WINDOW (inw_##name, ptr, len)

/* the only harness loop that needs XV_WIN unwindings lives in a macro with a
   recognisable loop variable so jobs can give it its own bound */
#define XV_WINDOW(dst, src, len)                                            \
  for (size_t xv_k = 0; xv_k < XV_WIN; xv_k++)                              \
    dst[xv_k] = (xv_k < (size_t)(len)) ? (src)[xv_k] : 0

/* Arbitrary-but-fixed index below n, for universally quantified
   obligations ("for every k < n: P(k)" is asserted as P(k) for nondet k). */
#define XV_ANY_INDEX(k, name, n) XV_IN (size_t, name, nondet_size); size_t k = name; XV_ASSUME (k < (size_t)(n))

#define XV_HAVOC_OBJ(p) __CPROVER_havoc_object (p)
#define XV_HAVOC_SLICE(p, n) __CPROVER_havoc_slice ((p), (n))
#define XV_OBJ_SIZE(p) __CPROVER_OBJECT_SIZE (p)
#define XV_PTR_OFF(p) ((size_t)__CPROVER_POINTER_OFFSET (p))
#define XV_SAME_OBJ(p, q) __CPROVER_same_object ((p), (q))
#define XV_R_OK(p, n) __CPROVER_r_ok ((p), (n))
#define XV_W_OK(p, n) __CPROVER_w_ok ((p), (n))

#else
/* ---------------------------------------------------------------- native */
#include <stdio.h>

/* replay file: lines "name value" (scalars, decimal or 0x hex) and
   "name[] hexbytes" (buffer windows).  */
extern unsigned long long xv_replay_scalar (const char *name, int *found);
extern size_t xv_replay_bytes (const char *name, unsigned char *dst, size_t max);
extern int xv_native_failures;

#define XV_ASSUME(c) do { if (!(c)) { printf ("REPLAY-ASSUMPTION-NOT-MET %s:%d %s\n", __FILE__, __LINE__, #c); exit (77); } } while (0)
#define XV_ASSERT(tag, c, msg) do { if (!(c)) { printf ("REPLAY-FAIL [%s] %s\n", tag, msg); xv_native_failures++; } } while (0)
#define XV_CANARY(msg) ((void)0)
#define XV_STUBPRE(tag, c, msg) ((void)0)

#define XV_IN(type, name, nondetfn) type in_##name = (type) xv_replay_scalar (#name, 0); type name = in_##name

#define XV_IN_BYTES(ptr, name, len, extra)                                  \
  unsigned char *ptr = malloc ((size_t)(len) + (extra) + 1);                \
  memset (ptr, 'A', (size_t)(len) + (extra));                               \
  xv_replay_bytes (#name, ptr, (size_t)(len) + (extra))

#define XV_ANY_INDEX(k, name, n) XV_IN (size_t, name, nondet_size); size_t k = name; XV_ASSUME (k < (size_t)(n))

#define XV_IN_BYTES_FIXED(ptr, name, len, cap)                              \
  unsigned char *ptr = malloc ((size_t)(cap) + 1);                          \
  memset (ptr, 'A', (size_t)(cap));                                         \
  xv_replay_bytes (#name, ptr, (size_t)(cap))

#define XV_HAVOC_OBJ(p) ((void)0)
#define XV_HAVOC_SLICE(p, n) ((void)0)
#endif

/* ------------------------------------------------------- shared predicates */

/* crypt(5): "entirely printable ASCII, no whitespace, none of : ; * ! \" */
static inline bool xv_passwd_safe (unsigned char c)
{
  return c > 0x20 && c < 0x7f && c != ':' && c != ';' && c != '*'
         && c != '!' && c != '\\';
}

static inline bool xv_is_b64 (unsigned char c)   /* ./0-9A-Za-z */
{
  return c == '.' || c == '/' || (c >= '0' && c <= '9')
         || (c >= 'A' && c <= 'Z') || (c >= 'a' && c <= 'z');
}

static inline int xv_b64_val (unsigned char c)   /* position in ascii64 */
{
  if (c == '.') return 0;
  if (c == '/') return 1;
  if (c >= '0' && c <= '9') return 2 + (c - '0');
  if (c >= 'A' && c <= 'Z') return 12 + (c - 'A');
  if (c >= 'a' && c <= 'z') return 38 + (c - 'a');
  return -1;
}

/* Number of decimal digits of v (v has at most 10 digits where used).  */
static inline unsigned xv_dec_ndigits (unsigned long long v)
{
  unsigned n = 1;
  unsigned long long lim = 10;
  for (int i = 0; i < 9; i++)
    if (v >= lim) { n++; lim *= 10; }
  return n;
}

/* Number of decimal digits of any 64-bit v: 19 comparisons with constants.  */
static inline unsigned xv_dec_ndigits20 (unsigned long long v)
{
  unsigned n = 1;
  unsigned long long lim = 10;
  for (int i = 0; i < 19; i++)   /* XV_UNWIND 19 */
    if (v >= lim) { n++; if (i < 18) lim *= 10; else lim = ~0ULL; }
  return n;
}

static inline bool xv_is_digit (unsigned char c) { return c >= '0' && c <= '9'; }

#endif /* XV_H */

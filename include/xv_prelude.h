/* Force-included (-include) in front of every translation unit compiled for
   CBMC, real or harness.  Rewrite rule R2 of DESIGN.md: glibc's errno is
   (*__errno_location ()), a call that cannot appear in frames or
   postconditions; it is replaced by a plain global.  Assumption A-errno:
   errno behaves like a thread-local int lvalue.  */
#ifndef XV_PRELUDE_H
#define XV_PRELUDE_H 1
#include <errno.h>
#undef errno
extern int xv_errno;
#define errno xv_errno

/* assert(): glibc expands it to a call of the noreturn __assert_fail.  CBMC
   turns that call into an obligation but lets execution continue; the real
   process aborts.  Keep the obligation (same text, same source line) and add
   the abort: nothing after a failed assert is reachable.  <assert.h> is
   included once here so that its declarations (guarded by _ASSERT_H_DECLS)
   are not affected by the macro.  */
#include <assert.h>
#define __assert_fail(expr_, file_, line_, fn_) \
  (__CPROVER_assert (0, "assert() failure aborts the process: " expr_), __CPROVER_assume (0))
#endif

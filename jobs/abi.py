"""C20: binary interface."""
from xvlib import abi

JOBS = [
    {"name": "abi_layout", "props": ["C20"], "functions": ["struct crypt_data", "<crypt.h> constants"],
     "harness": "harness/abi.c", "unwind": 2, "mem_gb": 1, "timeout": 60, "no_native": True},
    {"name": "abi_symbols", "props": ["C20"], "kind": "py", "fn": abi.job, "min_canaries": 0,
     "functions": ["symbol versions and aliases of crypt.c, crypt-static.c, crypt-gensalt-static.c, crypt-des-obsolete.c"],
     "back_end": "gcc -E on the real sources + the project's gen-libcrypt-map, compared with spec/abi_baseline.json (supporting static fact, outside the contract family)"},
]

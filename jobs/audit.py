"""C08: frame audit of the re-entrant entry points."""
from xvlib import audit

JOBS = [
    {"name": "reentrant_frame_audit", "props": ["C08"], "kind": "py", "fn": audit.job, "min_canaries": 0,
     "functions": ["call-graph closure of crypt_r, crypt_rn, crypt_ra, crypt_gensalt_rn, crypt_gensalt_ra, crypt_checksalt, crypt_preferred_method"],
     "back_end": "goto-cc + goto-instrument (call graph with function pointers over-approximated by signature, symbol table)",
     "assumptions": ["errno is thread-local (libc)", "arc4random_buf is thread-safe (libc)",
                     "const-qualified static tables are never written (const-correctness is the compiler's check)"]},
]

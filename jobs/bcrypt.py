"""bcrypt: codec, setting parser, output assembly."""

def _b(unit, functions, props, extra=None):
    j = {"name": "bcrypt_" + unit, "props": props, "functions": functions,
         "harness": "harness/bcrypt.c", "defs": ["B_%s=1" % unit],
         "verif_src": ["models/strings.c"],
         "unwind": 25, "mem_gb": 4, "timeout": 600, "no_native": True}
    j.update(extra or {})
    return j

JOBS = [
    _b("codec", ["BF_encode", "BF_decode"], ["C02", "C01"]),
    _b("decode", ["BF_decode"], ["C05", "C04"]),
    _b("canon", ["BF_decode"], ["C01"]),
]

DS = "(ptr - data->ctx.S[0])"     # word index of ptr within the S-boxes
DP = "(ptr - data->ctx.P)"        # word index of ptr within the P-array
ALL = "L, R, tmp1, tmp2, tmp3, tmp4, ptr, i, count, done, __CPROVER_object_whole(data)"
F = "BF_crypt"
BF_LOOPS = [
    {"function": F, "anchor": "for (i = 0; i < BF_N + 2; i += 2)", "nth": 0, "assigns": ALL,
     "invariant": "0 <= i && i <= 18 && (i & 1) == 0", "decreases": "18 - i"},
    {"function": F, "anchor": "while (ptr < &data->ctx.S[3][0xFF]);", "assigns": ALL,
     "invariant": "__CPROVER_same_object(ptr, data) && %s >= 0 && %s <= 1020 && (%s & 3) == 0" % (DS, DS, DS),
     "decreases": "1024 - %s" % DS},
    {"function": F, "anchor": "while (--count);", "nth": 0, "assigns": ALL,
     "invariant": "count >= 1", "decreases": "count"},
    {"function": F, "anchor": "for (i = 0; i < BF_N + 2; i += 2)", "nth": 1, "assigns": ALL,
     "invariant": "0 <= i && i <= 18 && (i & 1) == 0", "decreases": "18 - i"},
    {"function": F, "anchor": "while (1);", "assigns": ALL,
     "invariant": "done == 0 || done == 1", "decreases": "1 - done"},
    {"function": F, "anchor": "BF_body ();", "nth": 0, "assigns": ALL,
     "invariant": "__CPROVER_same_object(ptr, data) && %s >= 0 && %s <= 16 && (%s & 1) == 0" % (DP, DP, DP),
     "decreases": "18 - %s" % DP},
    {"function": F, "anchor": "BF_body ();", "nth": 1, "assigns": ALL,
     "invariant": "__CPROVER_same_object(ptr, data) && %s >= 0 && %s <= 1022 && (%s & 1) == 0" % (DS, DS, DS),
     "decreases": "1024 - %s" % DS},
    {"function": F, "anchor": "for (i = 0; i < BF_N; i += 4)", "assigns": ALL,
     "invariant": "0 <= i && i <= 16 && (i & 3) == 0", "decreases": "16 - i"},
    {"function": F, "anchor": "for (i = 0; i < 6; i += 2)", "assigns": ALL,
     "invariant": "0 <= i && i <= 6 && (i & 1) == 0", "decreases": "6 - i"},
    {"function": F, "anchor": "while (--count);", "nth": 1, "assigns": ALL,
     "invariant": "count >= 1 && count <= 64", "decreases": "count"},
]
JOBS.append(_b("crypt", ["BF_crypt", "BF_set_key", "BF_swap", "BF_decode", "BF_encode"], ["C05", "C10", "C11", "C03", "C01", "C02", "C04"],
               {"loops": BF_LOOPS, "dfcc": {"apply_loop_contracts": True}, "unwind": 82, "mem_gb": 8, "timeout": 1800,
                # not discharged: DFCC instrumentation of the ten Eksblowfish loops yields 770k SSA steps / 27k VCCs and
                # the propositional reduction runs out of memory at 40 GB (DESIGN.md 10.6); kept for a larger machine
                "wip": True}))

JOBS.append(_b("full", ["BF_full_crypt", "BF_set_key"], ["C05", "C04", "C03", "C01", "C11", "C09"],
               {"replace_calls": ["BF_crypt:bf_crypt_stub"], "unwind": 82, "timeout": 900,
                "assumptions": ["BF_crypt replaced by its contract (enforced by bcrypt_crypt where that job completes)"]}))

JOBS.append(_b("reject", ["BF_crypt", "BF_decode"], ["C05", "C11", "C04"],
               {"unwind": 8, "unwindset": ["BF_crypt.%d:1" % i for i in range(10)] + ["BF_set_key.0:1", "BF_set_key.1:1", "BF_swap.0:1"],
                "unreachable_loops": r"^BF_(crypt|set_key|swap)\.unwind", "timeout": 900}))

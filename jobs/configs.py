"""C19: configuration matrix."""
from xvlib import configs

JOBS = [
    {"name": "config_matrix", "props": ["C19"], "kind": "py", "fn": configs.job, "min_canaries": 0,
     "functions": ["get_hashfn", "hash_algorithms", "crypt_checksalt", "crypt_preferred_method", "crypt_gensalt_rn (per configuration)"],
     "back_end": "cbmc 6.11.0 / MiniSat 2 per configuration; goto-cc for the build obligation",
     "assumptions": ["enumeration of configurations (9 quick, about 70 thorough), not a proof over all 2^16 selections",
                     "each enabled method's hashing code is the same text in every configuration (the method files do not test other methods' INCLUDE_ macros, except bigcrypt/descrypt and yescrypt/scrypt whose sibling guards are covered by the method jobs in the full configuration only)"]},
]

"""lib/crypt.c: the API layer."""

BADSALT_LOOP = {
    "function": "check_badsalt_chars", "anchor": "for (i = 0; setting[i] != '\\0'; i++)",
    # g_set_size: ghost length of the setting (setting[g_set_size] == 0);
    # g_bk: arbitrary-but-fixed index; "no unacceptable byte before i"
    "invariant": "i <= g_set_size && (g_bk < i ==> ((unsigned char) setting[g_bk] > 0x20 && (unsigned char) setting[g_bk] < 0x7f))",
    "decreases": "g_set_size - i",
    "assigns": "i",
}

# exhaustive split over the 16 entries of hash_algorithms: with the entry a
# constant, the indirect call h->crypt (...) has one target per case
TABLE_CASES = [("t%d" % k, None, ["XV_TABLE_INDEX=%d" % k]) for k in range(16)]


def _do_crypt(name, defs, extra=None):
    j = {"name": name, "props": ["C04", "C05", "C07", "C09", "C18", "C19"],
         "functions": ["do_crypt"],
         "harness": "harness/do_crypt.c", "defs": defs + ["XV_BZERO_EVENTS=1"], "cases": TABLE_CASES,
         "verif_src": ["models/strings.c"],
         "replace_calls": ["check_badsalt_chars:check_badsalt_chars_stub", "get_hashfn:get_hashfn_stub"],
         "restub": {"remove": ["get_internal"], "src": ["contracts/get_internal_stub.c"]},
         "allow_no_body": ["gensalt_", "get_random_bytes", "make_failure_token"],
         "unwind": 20, "bounds": {"SPAN": 64, "STR": 32, "SPANEXACT": 24},
         "mem_gb": 3, "timeout": 400}
    j.update(extra or {})
    return j

JOBS = [
    _do_crypt("do_crypt", []),
    _do_crypt("do_crypt_good_setting", ["GOOD_SETTING=1"], {"props": ["C10", "C18", "C05"]}),
]


def _unit(name, define, props, functions, extra=None):
    j = {"name": name, "props": props, "functions": functions,
         "harness": "harness/crypt_units.c", "defs": [define + "=1"],
         "verif_src": ["models/strings.c"],
         "allow_no_body": ["gensalt_", "crypt_", "get_random_bytes", "make_failure_token"],
         "unwind": 20, "bounds": {"SPAN": 64, "STR": 32, "SPANEXACT": 24}, "mem_gb": 2, "timeout": 300}
    j.update(extra or {})
    return j

JOBS += [
    _unit("check_badsalt_chars", "U_badsalt", ["C05", "C10", "C18"], ["check_badsalt_chars"], {"loops": [BADSALT_LOOP]}),
    _unit("get_hashfn", "U_hashfn", ["C05", "C07", "C10", "C18", "C19"], ["get_hashfn", "is_des_salt_char"]),
    _unit("hash_table", "U_table", ["C10", "C12", "C18", "C19"], ["hash_algorithms (table)"]),
    _unit("get_internal", "U_get_internal", ["C04", "C07"], ["get_internal"],
          {"cases": [("r%d" % k, None, ["DATA_OFF=%d" % (16 + k)]) for k in range(16)],
           "assumptions": ["A-align: malloc'd and static objects start at multiples of 16; the 16 residues of the data object's placement are enumerated"]}),
    _unit("make_failure_token", "U_failure_token", ["C04", "C05", "C13"], ["make_failure_token"],
          {"repo_src": ["lib/util-make-failure-token.c"], "allow_no_body": ["gensalt_", "crypt_", "get_random_bytes"]}),
]


def _api(name, define, props, functions, extra=None):
    j = {"name": name, "props": props, "functions": functions,
         "harness": "harness/api.c", "defs": [define + "=1", "XV_BZERO_EVENTS=1"],
         "verif_src": ["models/strings.c"], "repo_src": ["lib/util-make-failure-token.c"],
         "replace_calls": ["do_crypt:do_crypt_stub", "check_badsalt_chars:check_badsalt_chars_stub",
                           "get_hashfn:get_hashfn_stub"],
         "allow_no_body": ["gensalt_", "crypt_", "get_random_bytes"],
         "unwind": 20, "bounds": {"SPAN": 64, "STR": 32, "SPANEXACT": 24}, "mem_gb": 4, "timeout": 400}
    j.update(extra or {})
    return j

JOBS += [
    _api("crypt_rn_small", "A_crypt_rn_small", ["C04", "C05"], ["crypt_rn"]),
    _api("crypt_rn", "A_crypt_rn", ["C04", "C05", "C07"], ["crypt_rn"]),
    _api("crypt_r", "A_crypt_r", ["C04", "C05", "C07"], ["crypt_r"]),
    _api("crypt_ra", "A_crypt_ra", ["C04", "C05", "C07", "C14"], ["crypt_ra"]),
    _api("crypt_ra_alloc", "A_crypt_ra_alloc", ["C09", "C14", "C15"], ["crypt_ra"],
         {"cbmc_flags": ["--memory-leak-check"], "bound": "recorded size of an undersized block <= 64",
          "assumptions": ["realloc model: may fail; on success frees the old block and returns a fresh block with arbitrary contents"]}),
    _api("crypt_checksalt", "A_checksalt", ["C18", "C19"], ["crypt_checksalt"]),
    _api("crypt_preferred_method", "A_preferred", ["C18", "C19"], ["crypt_preferred_method"]),
    _api("crypt_gensalt_rn", "A_gensalt_rn", ["C04", "C09", "C10", "C12", "C13", "C18", "C19"], ["crypt_gensalt_rn"],
         {"cases": TABLE_CASES, "allow_no_body": ["crypt_"], "bound": "caller-supplied nrbytes <= 300"}),
    _api("crypt_gensalt_ra", "A_gensalt_ra", ["C10", "C14", "C15"], ["crypt_gensalt_ra"],
         {"replace_calls": ["crypt_gensalt_rn:crypt_gensalt_rn_stub"], "cbmc_flags": ["--memory-leak-check", "--malloc-may-fail", "--malloc-fail-null"]}),
]

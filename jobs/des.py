"""C17: DES core against FIPS 46-3."""

def _des(name, define, functions, extra=None):
    j = {"name": name, "props": ["C17", "C02"], "functions": functions,
         "harness": "harness/des.c", "defs": [define + "=1"],
         "repo_src": ["lib/alg-des.c", "lib/alg-des-tables.c"],
         "unwind": 66, "mem_gb": 4, "timeout": 600, "checks": ["--bounds-check", "--pointer-check"]}
    j.update(extra or {})
    return j

JOBS = [
    _des("des_set_key", "D_set_key", ["des_set_key"]),
    _des("des_set_salt", "D_set_salt", ["des_set_salt"]),
    # The 16 rounds: DFCC loop contract on the inner do...while loop (the
    # non-DFCC pass rejects do...while).  Invariant: after k rounds the real
    # (l, r) equal the specification's state G_L[k], G_R[k] computed by the
    # harness for the same symbolic block, arbitrary 48-bit round keys,
    # arbitrary salt, both directions; the step obligation is "one table-driven
    # round = one FIPS round".
    _des("des_crypt_block", "D_crypt_block", ["des_crypt_block"],
         {"mode": "E1 (DFCC)",
          "dfcc": {"enforce": ["_crypt_des_crypt_block"]},
          "loops": [{"function": "_crypt_des_crypt_block", "anchor": "while (--round);",
                     "invariant": "round >= 1 && round <= 16 && l == G_L[16 - round] && r == G_R[16 - round]"
                                  " && kl == kl1 + (16 - round) * rk_step && kr == kr1 + (16 - round) * rk_step"
                                  " && (rk_step == 1 || rk_step == -1)"
                                  " && (rk_step == 1 ? (kl1 == ctx->keysl && kr1 == ctx->keysr)"
                                  "                  : (kl1 == ctx->keysl + 15 && kr1 == ctx->keysr + 15))",
                     "decreases": "round",
                     "assigns": "round, l, r, f, r48l, r48r, kl, kr"}],
          "exempt": [
              {"match": r"^_crypt_des_crypt_block\.loop_assigns\.|^_crypt_des_crypt_block\.assigns\.(25|26|27)$"
                        r"|^__CPROVER_contracts_write_set_check_assignment\.unwind",
               "reason": "DFCC write-set bookkeeping after a do...while loop nested in an un-contracted outer loop "
                         "(cbmc 6.11): the three assignments following the loop (r, l, count - locals and a parameter of "
                         "the function) are reported as not assignable and the library's own loop as not unwound, for any "
                         "bound. The assignability obligations inside the loop body - the ones the loop contract's "
                         "soundness needs - and every memory write of the function (checked against the enforced "
                         "frame `assigns out[0..8)`) are discharged; the exempted three concern two locals and a by-value "
                         "parameter of the function itself, which are trivially in its frame."}],
          "timeout": 900, "mem_gb": 6}),
]

def _obs(name, defs, extra=None):
    j = {"name": name, "props": ["C17"], "functions": ["setkey", "encrypt", "do_setkey_r", "do_encrypt_r", "pack_bits", "unpack_bits"],
         "harness": "harness/des_obsolete.c", "defs": ["PIC=1"] + defs,
         "replace_calls": ["get_des_ctx:get_des_ctx_stub"],
         "unwind": 9, "mem_gb": 4, "timeout": 300, "no_native": True,
         "checks": ["--bounds-check", "--pointer-check", "--pointer-overflow-check", "--signed-overflow-check"]}
    j.update(extra or {})
    return j

JOBS += [
    _obs("des_obsolete_static", ["DATA_OFF=16"]),
    _obs("des_obsolete_reentrant", ["REENTRANT=1"],
         {"functions": ["setkey_r", "encrypt_r", "do_setkey_r", "do_encrypt_r", "pack_bits", "unpack_bits"],
          "cases": [("r%d" % k, None, ["DATA_OFF=%d" % (16 + k)]) for k in range(4)],
          "assumptions": ["get_des_ctx replaced by its contract (aligned pointer inside data->internal); 4 residues of the data object's placement modulo alignof (struct des_ctx) enumerated"]}),
]

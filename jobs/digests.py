"""C16 / C09: digest primitives."""

def _md(alg, unit, extra=None):
    j = {"name": "%s_%s" % (alg, unit), "props": ["C16", "C09"] if unit == "final" else ["C16"],
         "functions": ["%s_%s" % (alg.upper(), {"init": "Init", "update": "Update", "final": "Final"}[unit])],
         "harness": "harness/digest_md.c", "defs": ["D_%s=1" % alg, "U_%s=1" % unit],
         "verif_src": ["models/strings.c"],
         "replace_calls": ["body:body_stub"],
         "unwind": 66, "mem_gb": 4, "timeout": 600, "tier": "thorough" if unit == "final" else "quick",
         "assumptions": ["A-det: the compression function is a function of (chaining value, block) - modelled by an uninterpreted function of the block index"],
         "bound": "message length <= 600 bytes (nine blocks: every buffer fill level and both padding layouts several times); the representation invariant does not mention absolute positions beyond the length counter, which is checked for off < 2^29"}
    if unit in ("update", "final"):
        j["cases"] = [("fill%d" % k, "(off & 63) == %d" % k) for k in range(64)]
        j["cases_quick"] = ["fill0", "fill1", "fill55", "fill56", "fill63"]
        j["cases_quick_note"] = ("quick tier: buffer fill levels 0, 1, 55, 56 (the padding boundary) and 63; "
                                 "thorough tier: all 64 fill levels (exhaustive)")
        j["timeout"] = 1200
    j.update(extra or {})
    return j

JOBS = [_md(a, u) for a in ("md5", "md4") for u in ("init", "update", "final")]

JOBS += [
    {"name": "hmac_sha1", "props": ["C16", "C02", "C09"], "functions": ["hmac_sha1_process_data"],
     "harness": "harness/hmac_sha1.c", "defs": ["XV_BZERO_EVENTS=1"],
     "repo_src": ["lib/alg-hmac-sha1.c"], "verif_src": ["models/strings.c"],
     "unwind": 66, "mem_gb": 4, "timeout": 600, "no_native": True,
     "assumptions": ["A-det: SHA-1 is a function of its input (digests are arbitrary but recorded); the SHA-1 primitive itself is not under contract"]},
]

"""C16 / C09: digest primitives."""

def _md(alg, unit, extra=None):
    # Update: "every message byte reaches the compression function, in position" is also what C03 needs of a primitive
    j = {"name": "%s_%s" % (alg, unit), "props": ["C16", "C09"] if unit == "final" else (["C16", "C03"] if unit == "update" else ["C16"]),
         "functions": ["%s_%s" % (alg.upper(), {"init": "Init", "update": "Update", "final": "Final"}[unit])],
         "harness": "harness/digest_md.c", "defs": ["D_%s=1" % alg, "U_%s=1" % unit],
         "verif_src": ["models/strings.c"],
         "replace_calls": ["body:body_stub"],
         "unwind": 66, "mem_gb": 4, "timeout": 600, "tier": "thorough" if unit == "final" else "quick",
         "assumptions": ["A-det: the compression function is a function of (chaining value, block) - modelled by an uninterpreted function of the block index"],
         "bound": "message length <= 600 bytes (nine blocks: every buffer fill level and both padding layouts several times); the representation invariant does not mention absolute positions beyond the length counter, which is checked for off < 2^29"}
    if unit in ("update", "final"):
        j["cases"] = [("fill%d" % k, "(off & 63) == %d" % k) for k in range(64)]
        j["cases_quick"] = ["fill0", "fill55", "fill63"] if unit == "update" else ["fill0", "fill1", "fill55", "fill56", "fill63"]
        j["cases_quick_note"] = ("quick tier: buffer fill levels 0, 55, 63 for Update (0, 1, 55, 56, 63 for Final); "
                                 "thorough tier: all 64 fill levels (exhaustive)")
        j["timeout"] = 1200
    j.update(extra or {})
    return j

JOBS = [_md(a, u) for a in ("md5", "md4") for u in ("init", "update", "final")]

JOBS += [
    {"name": "hmac_sha1", "props": ["C16", "C02", "C09"], "functions": ["hmac_sha1_process_data"],
     "harness": "harness/hmac_sha1.c", "defs": ["XV_BZERO_EVENTS=1"],
     "repo_src": ["lib/alg-hmac-sha1.c"], "verif_src": ["models/strings.c"],
     "unwind": 66, "mem_gb": 4, "timeout": 600, "no_native": True,
     "assumptions": ["A-det: SHA-1 is a function of its input (digests are arbitrary but recorded); the SHA-1 primitive itself is not under contract"]},
]

def _w(unit, functions, props, replace):
    return {"name": "sha256_" + unit, "props": props, "functions": functions,
            "harness": "harness/sha256_wrappers.c", "defs": ["%s=1" % unit, "XV_BZERO_EVENTS=1"],
            "verif_src": ["models/strings.c"], "replace_calls": replace,
            "unwind": 66, "mem_gb": 4, "timeout": 300, "no_native": True,
            "assumptions": ["A-det: SHA-256 is a function of its input; its compression function and buffering are not under contract here"]}

U = "_SHA256_Update:upd_stub"; F = "_SHA256_Final:fin_stub"
HI = "_HMAC_SHA256_Init:hinit_stub"; HU = "_HMAC_SHA256_Update:hupd_stub"; HF = "_HMAC_SHA256_Final:hfin_stub"
JOBS += [
    _w("W_update", ["SHA256_Update"], ["C09", "C16"], [U]),
    _w("W_final", ["SHA256_Final"], ["C09", "C16"], [F]),
    _w("W_buf", ["SHA256_Buf"], ["C09", "C16"], [U, F]),
    _w("W_hmac_init", ["HMAC_SHA256_Init"], ["C09", "C16"], [HI]),
    _w("W_hmac_final", ["HMAC_SHA256_Final"], ["C09", "C16"], [HF]),
    _w("W_hmac_buf", ["HMAC_SHA256_Buf"], ["C09", "C16"], [HI, HU, HF]),
    _w("H_init", ["_HMAC_SHA256_Init"], ["C16", "C02"], [U, F]),
]

JOBS.append(_w("W_hmac_update", ["HMAC_SHA256_Update"], ["C09", "C16"], [HU]))

PB_LOOPS = [
    {"function": "_crypt_PBKDF2_SHA256", "anchor": "for (i = 0; i * 32 < dkLen; i++) {", "nth": 0, "assigns": "i, hctx, u, __CPROVER_object_whole(tmp32), __CPROVER_object_whole(buf)", 
     "invariant": "(i == 0 || (i - 1) * 32 < dkLen) && xv_bzero_n == 0 && p_inits >= 1", "decreases": "(dkLen >> 5) + 1 - i"},
    {"function": "_crypt_PBKDF2_SHA256", "anchor": "for (i = 0; i * 32 < dkLen; i++) {", "nth": 1, "assigns": "i, j, hctx, __CPROVER_object_whole(ivec), __CPROVER_object_whole(T), __CPROVER_object_whole(U), __CPROVER_object_whole(buf)", 
     "invariant": "(i == 0 || (i - 1) * 32 < dkLen) && xv_bzero_n == 0 && p_inits >= 1", "decreases": "(dkLen >> 5) + 1 - i"},
    {"function": "_crypt_PBKDF2_SHA256", "anchor": "for (j = 2; j <= c; j++) {", "assigns": "j, hctx, __CPROVER_object_whole(T), __CPROVER_object_whole(U)", 
     "invariant": "2 <= j && j <= c + 1 && xv_bzero_n == 0 && p_inits >= 1", "decreases": "c + 1 - j"},
]
j = _w("P_pbkdf2", ["PBKDF2_SHA256", "SHA256_Pad_Almost"], ["C09", "C04", "C16"],
       ["_HMAC_SHA256_Init:p_hinit_stub", "_HMAC_SHA256_Update:p_hupd_stub", "_HMAC_SHA256_Final:p_hfin_stub",
        "_SHA256_Update:p_upd_stub", "SHA256_Transform:p_transform_stub", "cpu_to_be32_vect:p_vect_stub"])
j["loops"] = PB_LOOPS
j["dfcc"] = {"apply_loop_contracts": True}   # nested loop contracts: the non-DFCC pass crashes on them
j["pre_unwind"] = [{"function": "_crypt_PBKDF2_SHA256", "anchor": "for (k = 0; k < 32; k++)", "n": 32}]
JOBS.append(j)

SHA256_MAXLEN = 200
def _sha256(unit):
    j = {"name": "sha256_%s" % unit, "props": ["C16", "C03"] if unit == "update" else ["C16"],
         "functions": {"init": ["SHA256_Init"], "update": ["_SHA256_Update"], "final": ["_SHA256_Final", "SHA256_Pad", "cpu_to_be32_vect", "cpu_to_be64"]}[unit],
         "harness": "harness/digest_sha256.c", "defs": ["U_%s=1" % unit, "MAXLEN=%d" % SHA256_MAXLEN],
         "verif_src": ["models/strings.c"], "replace_calls": ["SHA256_Transform:transform_stub"],
         "unwind": 66, "mem_gb": 4, "timeout": 1200, "no_native": True,
         "assumptions": ["A-det: the SHA-256 compression function is a function of (chaining value, block) - modelled by an arbitrary-but-fixed table of chaining values indexed by block number"],
         "bound": "message length <= %d bytes; the bulk loop of Update is closed by a loop contract, so the number of blocks per call is not what the bound limits - it bounds the ghost padded-message object" % SHA256_MAXLEN}
    if unit in ("update", "final"):
        j["cases"] = [("fill%d" % k, "(off & 63) == %d" % k) for k in range(64)]
        j["cases_quick"] = ["fill0", "fill55", "fill63"] if unit == "update" else ["fill0", "fill55", "fill56", "fill63"]
        j["cases_quick_note"] = ("quick tier: buffer fill levels 0, 55, 63 for Update (0, 55, 56, 63 for Final); "
                                 "thorough tier: all 64 fill levels (exhaustive)")
    if unit == "update":
        st = " && ".join("ctx->state[%d] == G_STATE[G_NBLK][%d]" % (k, k) for k in range(8))
        j["loops"] = [{"function": "_SHA256_Update", "anchor": "while (len",
                       "invariant": "G_NBLK <= %d && len <= g_end" % (SHA256_MAXLEN // 64) + " && 64 * G_NBLK + len == g_end && g_end <= G_LEN && src == G_MSG + 64 * G_NBLK && " + st,
                       "assigns": "src, len, G_NBLK, " + ", ".join("ctx->state[%d]" % k for k in range(8)),
                       "decreases": "len"}]
    return j

JOBS += [_sha256(u) for u in ("init", "update", "final")]

SHA512_MAXLEN = 260
def _sha512(unit):
    j = {"name": "sha512_%s" % unit, "props": ["C16", "C09"] if unit == "final" else (["C16", "C03"] if unit == "update" else ["C16"]),
         "functions": {"init": ["SHA512_Init"], "update": ["SHA512_Update"], "final": ["SHA512_Final", "SHA512_Pad", "cpu_to_be64_vect", "cpu_to_be64"]}[unit],
         "harness": "harness/digest_sha512.c", "defs": ["U_%s=1" % unit, "MAXLEN=%d" % SHA512_MAXLEN, "XV_BZERO_EVENTS=1"],
         "verif_src": ["models/strings.c"], "replace_calls": ["SHA512_Transform:transform_stub"],
         "unwind": 130, "mem_gb": 6, "timeout": 1800, "no_native": True,
         "assumptions": ["A-det: the SHA-512 compression function is a function of (chaining value, block) - modelled by an arbitrary-but-fixed table of chaining values indexed by block number"],
         "bound": "message length <= %d bytes (so the high 64 bits of the 128-bit length are zero); the bulk loop of Update is closed by a loop contract" % SHA512_MAXLEN}
    if unit in ("update", "final"):
        j["cases"] = [("fill%d_%d" % (8 * k, 8 * k + 7), "((off & 127) >> 3) == %d" % k) for k in range(16)]
        j["tier"] = "thorough"
    if unit == "update":
        st = " && ".join("ctx->state[%d] == G_STATE[G_NBLK][%d]" % (k, k) for k in range(8))
        j["loops"] = [{"function": "_crypt_SHA512_Update", "anchor": "while (len",
                       "invariant": "G_NBLK <= %d && len <= g_end" % (SHA512_MAXLEN // 128) + " && 128 * G_NBLK + len == g_end && g_end <= G_LEN && src == G_MSG + 128 * G_NBLK && " + st,
                       "assigns": "src, len, G_NBLK, " + ", ".join("ctx->state[%d]" % k for k in range(8)),
                       "decreases": "len"}]
    return j

JOBS += [_sha512(u) for u in ("init", "update", "final")]
# sha512_update: not discharged - every one of its 16 fill-range cases exceeds 30 minutes of solver time
# (128-byte symbolic copies into the context buffer); kept for a larger budget.  sha512_final (16 cases,
# about 15 minutes each) and the quick sha512_final_wipe are discharged.
JOBS[-2]["wip"] = True

SHA1_MAXLEN = 200
def _sha1(unit):
    j = {"name": "sha1_%s" % unit, "props": ["C16", "C09"] if unit == "final" else (["C16", "C03"] if unit == "update" else ["C16"]),
         "functions": {"init": ["sha1_init_ctx"], "update": ["sha1_process_bytes"], "final": ["sha1_finish_ctx"]}[unit],
         "harness": "harness/digest_sha1.c", "defs": ["U_%s=1" % unit, "MAXLEN=%d" % SHA1_MAXLEN, "XV_BZERO_EVENTS=1"],
         "verif_src": ["models/strings.c"],
         "unwind": 66, "mem_gb": 4, "timeout": 1200, "no_native": True,
         "assumptions": ["A-det: the SHA-1 compression function is a function of (chaining value, block) - modelled by an arbitrary-but-fixed table of chaining values indexed by block number"],
         "bound": "message length <= %d bytes; loops over blocks and over padding bytes are closed by loop contracts" % SHA1_MAXLEN}
    st = " && ".join("ctx->state[%d] == G_STATE[%s][%d]" % (k, "%s", k) for k in range(5))
    if unit == "update":
        j["replace_calls"] = ["sha1_do_transform:transform_stub"]
        j["cases"] = [("fill%d" % k, "(off & 63) == %d" % k) for k in range(64)]
        j["cases_quick"] = ["fill0", "fill55", "fill63"]
        j["cases_quick_note"] = "quick tier: buffer fill levels 0, 55 and 63; thorough tier: all 64 (exhaustive)"
        j["loops"] = [{"function": "_crypt_sha1_process_bytes", "anchor": "for ( ; i + 63 < size; i += 64)",
                       "invariant": "G_NBLK <= %d && i <= size && g_off0 + i == 64 * G_NBLK && g_off0 + size <= G_LEN && " % (SHA1_MAXLEN // 64)
                                    + st.replace("%s", "G_NBLK"),
                       "assigns": "i, G_NBLK, " + ", ".join("ctx->state[%d]" % k for k in range(5)),
                       "decreases": "size - i"}]
    if unit == "final":
        j["replace_calls"] = ["_crypt_sha1_process_bytes:process_stub"]
        j["loops"] = [{"function": "_crypt_sha1_finish_ctx", "anchor": "while ((ctx->count[0] & 504) != 448)",
                       "invariant": "g_off > G_LEN && g_off <= G_PADLEN - 8 && ctx->count[0] == (unsigned int) (g_off << 3) && ctx->count[1] == 0 && ctx->buffer[g_k] == g_bufk && "
                                    + st.replace("%s", "g_off >> 6"),
                       "assigns": "g_off, g_bufk, __CPROVER_object_whole(ctx)",
                       "decreases": "G_PADLEN - g_off"}]
    return j

JOBS += [_sha1(u) for u in ("init", "update", "final")]

JOBS.append({"name": "sha512_final_wipe", "props": ["C09", "C16"], "functions": ["SHA512_Final", "cpu_to_be64_vect"],
             "harness": "harness/digest_sha512.c", "defs": ["U_final_wipe=1", "XV_BZERO_EVENTS=1"],
             "verif_src": ["models/strings.c"], "replace_calls": ["SHA512_Pad:pad_stub", "SHA512_Transform:transform_stub"],
             "unwind": 10, "mem_gb": 2, "timeout": 300, "no_native": True,
             "assumptions": ["SHA512_Pad replaced by a recording stub (its contract is enforced by sha512_final, thorough tier)"]})

"""Salt generators: gensalt_sha_rn and the per-method gensalt_*_rn."""

# The salt loop of gensalt_sha_rn runs at most maxsalt/4 <= 4 times under the
# contract's precondition (maxsalt in {8, 16}); it is unwound (bound 6) with an
# unwinding assertion, which is complete.  The digit-count loop has a contract.
SHA_LOOPS = [
    {"function": "_crypt_gensalt_sha_rn", "anchor": "ceiling *= 10",
     "invariant": "count <= 999999999 && ((ceiling == 10 && output_len == 17)" +
                  "".join(" || (ceiling == %d && output_len == %d && %d <= count)" % (10**(k+1), 17+k, 10**k) for k in range(1, 9)) + ")",
     "decreases": "10000000000 - ceiling",
     "assigns": "ceiling, output_len"},
]

JOBS = [
    {"name": "gensalt_sha_rn", "props": ["C10", "C11", "C12", "C13"],
     "functions": ["gensalt_sha_rn"],
     "harness": "harness/gensalt_sha.c",
     "repo_src": ["lib/util-gensalt-sha.c", "lib/util-base64.c"],
     "verif_src": ["models/strings.c"],
     "late_src": ["models/snprintf.c"],
     "loops": SHA_LOOPS,
     "unwind": 21, "unwind_by_func": {"^_crypt_gensalt_sha_rn$": 6}, "mem_gb": 3, "timeout": 180,
     "assumptions": ["snprintf model (models/snprintf.c)"]},

]

def _wrapper(name, fn, tag, src):
    return {"name": "gensalt_%s_wrapper" % name, "props": ["C10", "C11", "C12", "C13"],
            "functions": ["gensalt_%s_rn" % name],
            "harness": "harness/gensalt_sha.c",
            "defs": ["WRAPPER=1", "WRAPPER_FN=gensalt_%s_rn" % name, "WRAPPER_TAG='%s'" % tag],
            "repo_src": [src], "remove_bodies": [],
            # only the wrapper itself is taken from the TU: everything else in
            # the file (the hashing function and its callees) is unreachable
            "allow_no_body": ["MD5_", "SHA256_", "SHA512_", "explicit_bzero", "strcspn", "strtoul", "strncmp"],
            "unwind": 2, "mem_gb": 1, "timeout": 120,
            "native_src": []}

JOBS += [
    _wrapper("md5crypt", "gensalt_md5crypt_rn", "1", "lib/crypt-md5.c"),
    _wrapper("sha256crypt", "gensalt_sha256crypt_rn", "5", "lib/crypt-sha256.c"),
    _wrapper("sha512crypt", "gensalt_sha512crypt_rn", "6", "lib/crypt-sha512.c"),
]


# exhaustive partition of nrbytes for the yescrypt-family encoders: with the
# number of salt bytes fixed every write position is a constant
NRB_CASES = [("lt16", "nrbytes < 16"), ("gt64", "nrbytes > 64")] + \
            [("eq%d" % k, "nrbytes == %d" % k) for k in range(16, 65)]


NRB_QUICK = ["lt16", "eq16", "eq17", "eq18", "eq32", "eq63", "eq64", "gt64"]
NRB_QUICK_NOTE = ("quick tier discharges the cases nrbytes < 16, nrbytes > 64 and nrbytes in {16, 17, 18, 32, 63, 64} "
                  "(all three residues mod 3 and both ends); the thorough tier discharges the exhaustive "
                  "partition nrbytes < 16, 16..64, > 64")


def _misc(name, fn, defs, src, extra=None, functions=None):
    j = {"name": "gensalt_%s" % name, "props": ["C10", "C11", "C12", "C13"],
         "functions": functions or [fn],
         "harness": "harness/gensalt_misc.c",
         "defs": ["GENSALT_FN=%s" % fn] + defs,
         "repo_src": src + ["lib/util-base64.c"],
         "verif_src": ["models/strings.c"],
         "late_src": ["models/snprintf.c"],
         "allow_no_body": [],
         "unwind": 21, "mem_gb": 2, "timeout": 300, "bounds": {"STR": 32, "STRCPY": 384, "SPAN": 512}}
    j.update(extra or {})
    return j

JOBS += [
    _misc("descrypt", "gensalt_descrypt_rn", ["M_descrypt=1"], ["lib/crypt-des.c"]),
    _misc("bigcrypt", "gensalt_bigcrypt_rn", ["M_bigcrypt=1"], ["lib/crypt-des.c"],
          functions=["gensalt_bigcrypt_rn", "gensalt_descrypt_rn"]),
    _misc("bsdicrypt", "gensalt_bsdicrypt_rn", ["M_bsdicrypt=1"], ["lib/crypt-des.c"]),
    _misc("bcrypt_b", "gensalt_bcrypt_rn", ["M_bcrypt='b'"], ["lib/crypt-bcrypt.c"],
          functions=["gensalt_bcrypt_rn", "BF_gensalt", "BF_encode"]),
    _misc("bcrypt_a", "gensalt_bcrypt_a_rn", ["M_bcrypt='a'"], ["lib/crypt-bcrypt.c"],
          functions=["gensalt_bcrypt_a_rn", "BF_gensalt", "BF_encode"]),
    _misc("bcrypt_y", "gensalt_bcrypt_y_rn", ["M_bcrypt='y'"], ["lib/crypt-bcrypt.c"],
          functions=["gensalt_bcrypt_y_rn", "BF_gensalt", "BF_encode"]),
    _misc("bcrypt_x", "gensalt_bcrypt_x_rn", ["M_bcrypt='x'"], ["lib/crypt-bcrypt.c"],
          extra={"min_canaries": 1}),
    _misc("sunmd5", "gensalt_sunmd5_rn", ["M_sunmd5=1"], ["lib/crypt-sunmd5.c"],
          functions=["gensalt_sunmd5_rn", "write_itoa64_4"]),
    _misc("nt", "gensalt_nt_rn", ["M_nt=1", "OUT_OBJ=osz"], ["lib/crypt-nthash.c", "lib/util-xstrcpy.c"],
          functions=["gensalt_nt_rn", "strcpy_or_abort"]),
    _misc("sha1crypt", "gensalt_sha1crypt_rn", ["M_sha1crypt=1", "OSZ_MAX=256"], ["lib/crypt-pbkdf1-sha1.c"],
          functions=["gensalt_sha1crypt_rn", "to64"], extra={"unwind": 18}),
    _misc("scrypt", "gensalt_scrypt_rn", ["M_scrypt=1", "OSZ_MAX=256", "XV_STRCPY_MAX=256", "STUB_STRCPY_OR_ABORT=1", "XV_STR_SCAN=193"], ["lib/crypt-scrypt.c", ],
          functions=["gensalt_scrypt_rn", "encode64", "encode64_uint32", "N2log2", "strcpy_or_abort"],
          extra={"unwind": 24, "bounds": {"STR": 193, "STRCPY": 256, "SPAN": 512}, "cases": NRB_CASES, "cases_quick": NRB_QUICK, "cases_quick_note": NRB_QUICK_NOTE, "timeout": 500, "mem_gb": 2, "bound": "output_size <= 256 (larger sizes differ only in strcpy_or_abort's zero fill, which has its own contract)"}),
    _misc("yescrypt", "gensalt_yescrypt_rn", ["M_yescrypt=1", "OSZ_MAX=256", "XV_STRCPY_MAX=256", "STUB_STRCPY_OR_ABORT=1", "XV_STR_SCAN=193"],
          ["lib/crypt-yescrypt.c", "lib/alg-yescrypt-common.c"],
          functions=["gensalt_yescrypt_rn", "yescrypt_encode_params_r", "encode64", "encode64_uint32",
                     "encode64_uint32_fixed", "N2log2", "strcpy_or_abort"],
          extra={"unwind": 24, "bounds": {"STR": 193, "STRCPY": 256, "SPAN": 512}, "cases": NRB_CASES, "cases_quick": NRB_QUICK, "cases_quick_note": NRB_QUICK_NOTE, "timeout": 500, "mem_gb": 2, "bound": "output_size <= 256 (larger sizes differ only in strcpy_or_abort's zero fill, which has its own contract)"}),
    _misc("gost_yescrypt", "gensalt_gost_yescrypt_rn", ["M_gost_yescrypt=1", "OSZ_MAX=256", "XV_STRCPY_MAX=256", "STUB_STRCPY_OR_ABORT=1", "XV_STR_SCAN=193"],
          ["lib/crypt-gost-yescrypt.c", "lib/crypt-yescrypt.c", "lib/alg-yescrypt-common.c"],
          functions=["gensalt_gost_yescrypt_rn", "gensalt_yescrypt_rn", "yescrypt_encode_params_r", "encode64",
                     "encode64_uint32", "encode64_uint32_fixed", "N2log2", "strcpy_or_abort"],
          extra={"unwind": 24, "bounds": {"STR": 193, "STRCPY": 256, "SPAN": 512}, "cases": NRB_CASES, "cases_quick": NRB_QUICK, "cases_quick_note": NRB_QUICK_NOTE, "timeout": 500, "mem_gb": 2, "bound": "output_size <= 256 (larger sizes differ only in strcpy_or_abort's zero fill, which has its own contract)"}),
]

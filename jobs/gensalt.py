"""Salt generators: gensalt_sha_rn and the per-method gensalt_*_rn."""

# The salt loop of gensalt_sha_rn runs at most maxsalt/4 <= 4 times under the
# contract's precondition (maxsalt in {8, 16}); it is unwound (bound 6) with an
# unwinding assertion, which is complete.  The digit-count loop has a contract.
SHA_LOOPS = [
    {"function": "_crypt_gensalt_sha_rn", "anchor": "ceiling *= 10",
     "invariant": "count <= 999999999 && ((ceiling == 10 && output_len == 17)" +
                  "".join(" || (ceiling == %d && output_len == %d && %d <= count)" % (10**(k+1), 17+k, 10**k) for k in range(1, 9)) + ")",
     "decreases": "10000000000 - ceiling",
     "assigns": "ceiling, output_len"},
]

JOBS = [
    {"name": "gensalt_sha_rn", "props": ["C10", "C11", "C12", "C13"],
     "functions": ["gensalt_sha_rn"],
     "harness": "harness/gensalt_sha.c",
     "repo_src": ["lib/util-gensalt-sha.c", "lib/util-base64.c"],
     "verif_src": ["models/strings.c"],
     "late_src": ["models/snprintf.c"],
     "loops": SHA_LOOPS,
     "unwind": 21, "unwind_by_func": {"^_crypt_gensalt_sha_rn$": 6}, "mem_gb": 3, "timeout": 180,
     "assumptions": ["snprintf model (models/snprintf.c)"]},
]

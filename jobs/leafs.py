"""Leaf contracts: enforcement side of stubs used elsewhere, static-object entry points."""

JOBS = [
    {"name": "leaf_strcpy_or_abort", "props": ["C04", "C13"], "functions": ["strcpy_or_abort"],
     "harness": "harness/leafs.c", "defs": ["L_strcpy_or_abort=1"],
     "repo_src": ["lib/util-xstrcpy.c"], "verif_src": ["models/strings.c"],
     # exact models of the two libc calls inside (CBMC's own memcpy/memset with a symbolic length)
     "unwind": 10, "mem_gb": 4, "timeout": 600, "bound": "destination size <= 384 (CRYPT_OUTPUT_SIZE, the largest any caller passes)"},
    {"name": "leaf_get_random_bytes", "props": ["C12", "C04"], "functions": ["get_random_bytes"],
     "harness": "harness/leafs.c", "defs": ["L_get_random_bytes=1"],
     "repo_src": ["lib/util-get-random-bytes.c"], "verif_src": ["models/strings.c"],
     "unwind": 4, "mem_gb": 2, "timeout": 120,
     "assumptions": ["arc4random_buf (libc) fills exactly n bytes and cannot fail; this configuration has HAVE_ARC4RANDOM_BUF"]},
    {"name": "static_entry_points", "props": ["C07", "C10"], "functions": ["crypt", "crypt_gensalt"],
     "harness": "harness/leafs.c", "defs": ["L_static_entry=1"],
     "repo_src": ["lib/crypt-static.c", "lib/crypt-gensalt-static.c"],
     "unwind": 4, "mem_gb": 2, "timeout": 120, "no_native": True},
    {"name": "leaf_be32_vect", "props": ["C04", "C16"], "functions": ["cpu_to_be32_vect", "cpu_to_be32"],
     "harness": "harness/leafs.c", "defs": ["L_be32_vect=1"],
     "loops": [{"function": "cpu_to_be32_vect", "anchor": "while (len)", "span": 12,
                "invariant": "len <= g_len && dst == g_dst + 4 * (g_len - len) && src == g_src + (g_len - len) && "
                             "(g_k >= g_len - len || (g_dst[4 * g_k] == (unsigned char) (g_src[g_k] >> 24) && g_dst[4 * g_k + 1] == (unsigned char) (g_src[g_k] >> 16) "
                             "&& g_dst[4 * g_k + 2] == (unsigned char) (g_src[g_k] >> 8) && g_dst[4 * g_k + 3] == (unsigned char) g_src[g_k]))",
                "assigns": "len, dst, src, __CPROVER_object_whole(dst)",
                "decreases": "len"}],
     "unwind": 4, "mem_gb": 4, "timeout": 300, "no_native": True},
    {"name": "leaf_yescrypt_uint32_codec", "props": ["C10", "C01", "C04", "C13", "C06", "C11"],
     "functions": ["encode64_uint32", "decode64_uint32", "encode64_uint32_fixed", "decode64_uint32_fixed", "atoi64"],
     "harness": "harness/leafs.c", "defs": ["L_yescrypt_uint32_codec=1"],
     "repo_src": ["lib/util-base64.c"],
     "unwind": 9, "mem_gb": 8, "timeout": 600, "no_native": True,
     "bound": "none on the values (all 2^32 x 2^32 value/minimum pairs); loops are bounded by the operand width (<= 6 characters), unwinding assertions on"},
]

"""L0 method contracts: crypt_<method>_rn against the shared method contract
and the method-specific shape/encoding clauses."""

def _method(name, define, loops, functions, weak=False, extra=None):
    j = {"name": "method_%s%s" % (name, "_weak" if weak else ""),
         "props": ["C04"] if weak else ["C01", "C02", "C03", "C04", "C05", "C06", "C07"],
         "functions": functions,
         "harness": "harness/method.c", "defs": [define + "=1"] + (["WEAK=1"] if weak else []),
         "verif_src": ["models/strings.c"], "repo_src": ["lib/util-base64.c"],
         "loops": loops,
         "unwind": 10, "bounds": {"SPAN": 64, "STR": 32, "SPANEXACT": 24}, "mem_gb": 6, "timeout": 600}
    j.update(extra or {})
    return j

MD5_LOOPS = [
    {"function": "_crypt_crypt_md5crypt_rn", "anchor": "for (cnt = phr_size; cnt > 16; cnt -= 16)",
     "invariant": "cnt <= phr_size && xv_md5_state == 1 && xv_md5_ctx == scratch && xv_phrase_absorbed >= 3", "decreases": "cnt"},
    {"function": "_crypt_crypt_md5crypt_rn", "anchor": "for (cnt = phr_size; cnt > 0; cnt >>= 1)",
     "invariant": "cnt <= phr_size && xv_md5_state == 1 && xv_md5_ctx == scratch && xv_phrase_absorbed >= 3", "decreases": "cnt"},
    {"function": "_crypt_crypt_md5crypt_rn", "anchor": "for (cnt = 0; cnt < 1000; ++cnt)",
     "invariant": "cnt <= 1000 && xv_md5_state == 0 && xv_md5_ctx == scratch && xv_phrase_absorbed >= 3", "decreases": "1000 - cnt"},
]

JOBS = [
    _method("md5crypt", "M_md5crypt", MD5_LOOPS, ["crypt_md5crypt_rn"]),
    _method("md5crypt", "M_md5crypt", MD5_LOOPS, ["crypt_md5crypt_rn"], weak=True),
]

"""L0 method contracts: crypt_<method>_rn against the shared method contract
and the method-specific shape/encoding clauses."""

def _method(name, define, loops, functions, weak=False, extra=None):
    extra = dict(extra or {})
    cap = extra.pop("set_cap", None)
    j = {"name": "method_%s%s" % (name, "_weak" if weak else ""),
         "props": ["C04"] if weak else ["C01", "C02", "C03", "C04", "C05", "C06", "C07"],
         "functions": functions,
         "harness": "harness/method.c", "defs": [define + "=1"] + (["WEAK=1"] if weak else []),
         "verif_src": ["models/strings.c"], "repo_src": ["lib/util-base64.c"],
         "loops": loops,
         # postconditions are stated over ghost state of the primitive stubs
         # (last digest, key material, parse/print logs): no native re-evaluation
         "no_native": True,
         "unwind": 10, "bounds": {"SPAN": 64, "STR": 32, "SPANEXACT": 24}, "mem_gb": 6, "timeout": 600}
    if cap and not weak:
        j["defs"].append("SET_CAP=%d" % cap)
        j["bound"] = "strlen (setting) < %d (longer than any hash of the method; the weak-precondition job covers memory safety for unbounded settings)" % cap
    elif not weak:
        j["bound"] = "strlen (setting) < 512"
    j.update(extra)
    return j

def _last_eq(ghost, var, n):
    """the ghost copy of the last digest equals the method's result buffer
    (kept across the stretching loop's havoc by its invariant)"""
    return " && ".join("%s[%d] == %s[%d]" % (ghost, i, var, i) for i in range(n))


MD5_LOOPS = [
    {"function": "_crypt_crypt_md5crypt_rn", "anchor": "for (cnt = phr_size; cnt > 16; cnt -= 16)",
     "invariant": "cnt <= phr_size && xv_md5_state == 1 && xv_md5_ctx == scratch && xv_phrase_absorbed >= 3 && (!xv_salt_span_set || xv_salt_absorbed >= 2)", "decreases": "cnt"},
    {"function": "_crypt_crypt_md5crypt_rn", "anchor": "for (cnt = phr_size; cnt > 0; cnt >>= 1)",
     "invariant": "cnt <= phr_size && xv_md5_state == 1 && xv_md5_ctx == scratch && xv_phrase_absorbed >= 3 && (!xv_salt_span_set || xv_salt_absorbed >= 2)", "decreases": "cnt"},
    {"function": "_crypt_crypt_md5crypt_rn", "anchor": "for (cnt = 0; cnt < 1000; ++cnt)",
     "invariant": "cnt <= 1000 && xv_md5_state == 0 && xv_md5_ctx == scratch && xv_phrase_absorbed >= 3 && (!xv_salt_span_set || xv_salt_absorbed >= 2) && "
                  + _last_eq("xv_md5_last", "result", 16), "decreases": "1000 - cnt"},
]

JOBS = [
    _method("md5crypt", "M_md5crypt", MD5_LOOPS, ["crypt_md5crypt_rn"]),
    _method("md5crypt", "M_md5crypt", MD5_LOOPS, ["crypt_md5crypt_rn"], weak=True),

]

def _sha_loops(fn, helper, blk, weak=False):
    dig = blk
    st = "xv_sha_state == %d && xv_sha_ctx == scratch && xv_phrase_absorbed >= 3"
    # the stretching loop runs exactly the parsed number of rounds (C01, C11):
    # 5000 unless a rounds= field was parsed, then the parsed value
    rounds_ok = "(xv_parse_n == 0 ? rounds == 5000 : rounds == xv_parse_log[0].v)"
    return [
        {"function": helper, "anchor": "for (cnt = len; cnt >= %d; cnt -= %d)" % (blk, blk),
         "invariant": "cnt <= len && xv_sha_state == 1 && xv_sha_ctx == ctx && xv_phrase_absorbed >= 3", "decreases": "cnt"},
        {"function": fn, "anchor": "for (cnt = phr_size; cnt > %d; cnt -= %d)" % (blk, blk),
         "invariant": "cnt <= phr_size && " + st % 1, "decreases": "cnt"},
        {"function": fn, "anchor": "for (cnt = phr_size; cnt > 0; cnt >>= 1)",
         "invariant": "cnt <= phr_size && " + st % 1, "decreases": "cnt"},
        {"function": fn, "anchor": "for (cnt = 0; cnt < phr_size; ++cnt)",
         "invariant": "cnt <= phr_size && " + st % 1, "decreases": "phr_size - cnt"},
        {"function": fn, "anchor": "for (cnt = 0; cnt < (size_t) 16 + (size_t) result[0]; ++cnt)",
         "invariant": "cnt <= 271 && " + st % 1, "decreases": "271 - cnt"},
        {"function": fn, "anchor": "for (cnt = 0; cnt < rounds; ++cnt)",
         # before the first round the last digest computed is S (in s_bytes), afterwards it is `result`
         # (the memory-safety variant carries only what its own obligations need: the digest-equality and
         #  cost clauses make its formula exceed 17 GB)
         "invariant": ("cnt <= rounds && " + st % 0) if weak else
                      ("cnt <= rounds && rounds >= 1000 && " + rounds_ok + " && " + st % 0
                       + " && (cnt == 0 || (" + _last_eq("xv_sha_last", "result", dig) + "))"),
         "decreases": "rounds - cnt"},
    ]

SHA_EXTRA = {"late_src": ["models/snprintf.c"], "timeout": 5400, "mem_gb": 20, "set_cap": 128, "tier": "thorough"}
JOBS += [
    _method("sha256crypt", "M_sha256crypt", _sha_loops("_crypt_crypt_sha256crypt_rn", "SHA256_Update_recycled", 32),
            ["crypt_sha256crypt_rn", "SHA256_Update_recycled"], extra=SHA_EXTRA),
    _method("sha512crypt", "M_sha512crypt", _sha_loops("_crypt_crypt_sha512crypt_rn", "sha512_process_recycled_bytes", 64),
            ["crypt_sha512crypt_rn", "sha512_process_recycled_bytes"], extra=SHA_EXTRA),
    _method("sha256crypt", "M_sha256crypt", _sha_loops("_crypt_crypt_sha256crypt_rn", "SHA256_Update_recycled", 32, weak=True),
            ["crypt_sha256crypt_rn", "SHA256_Update_recycled"], weak=True, extra=SHA_EXTRA),
    _method("sha512crypt", "M_sha512crypt", _sha_loops("_crypt_crypt_sha512crypt_rn", "sha512_process_recycled_bytes", 64, weak=True),
            ["crypt_sha512crypt_rn", "sha512_process_recycled_bytes"], weak=True, extra=SHA_EXTRA),

]

NT_LOOPS = [
    {"function": "_crypt_crypt_nt_rn", "anchor": "for (size_t i = 0; i < phr_size; i++)",
     "invariant": "i <= phr_size", "decreases": "phr_size - i"},
]
SUNMD5_LOOPS = [
    {"function": "_crypt_crypt_sunmd5_rn", "anchor": "for (unsigned int i = 0; i < nrounds; i++)",
     "invariant": "i <= nrounds && xv_md5_state == 0 && xv_md5_ctx == scratch && xv_phrase_absorbed >= 1",
     "decreases": "nrounds - i"},
]
# A-gnuc (DESIGN.md 3.3): `*phrase << 1` with a negative char is defined by GNU C,
# the dialect the project is built with; CBMC's ISO C check flags it.
GNUC_SHIFT = {"match": r"shift operand is negative in \(signed int\)\*phrase << 1",
              "reason": "left shift of a negative int is defined behaviour in GNU C (the project's dialect); "
                        "the value is then truncated to uint8_t - the documented dropping of the 8th bit"}
# A failed check makes CBMC report everything behind it UNKNOWN, so the check is
# not generated for these translation units (all other shifts in crypt-des.c are
# by constants below the operand width).
DES_CHECKS = ["--bounds-check", "--pointer-check", "--pointer-overflow-check", "--div-by-zero-check",
              "--signed-overflow-check", "--pointer-primitive-check", "--no-undefined-shift-check"]
DES_EXTRA = {"checks": DES_CHECKS, "assumptions": ["A-gnuc: " + GNUC_SHIFT["reason"]], "unwind": 67, "bound": "phrase shorter than 512 bytes (do_crypt's guarantee): the key-folding loops are unwound 66 times, complete for it",
             "timeout": 1200, "mem_gb": 14}

def _both(name, define, loops, functions, extra=None):
    return [_method(name, define, loops, functions, extra=extra),
            _method(name, define, loops, functions, weak=True, extra=extra)]

# crypt_nt_rn has its own lean harness (job "nt" below, harness/nt.c)
SUNMD5_EXTRA = {"late_src": ["models/snprintf.c"], "replace_calls": ["muffet_coin_toss:muffet_coin_toss_stub"], "timeout": 900, "mem_gb": 8}
JOBS += [_method("sunmd5", "M_sunmd5", SUNMD5_LOOPS, ["crypt_sunmd5_rn"], extra=dict(SUNMD5_EXTRA, set_cap=128, tier="thorough", timeout=2400)),
         _method("sunmd5", "M_sunmd5", SUNMD5_LOOPS, ["crypt_sunmd5_rn"], weak=True, extra=SUNMD5_EXTRA)]
JOBS += _both("descrypt", "M_descrypt", [], ["crypt_descrypt_rn", "des_gen_hash", "ascii_to_bin"], extra=DES_EXTRA)
JOBS += _both("bigcrypt", "M_bigcrypt", [], ["crypt_bigcrypt_rn", "crypt_descrypt_rn", "des_gen_hash", "ascii_to_bin"], extra=DES_EXTRA)
JOBS += [_method("bsdicrypt", "M_bsdicrypt", [], ["crypt_bsdicrypt_rn", "des_gen_hash", "ascii_to_bin"], extra=DES_EXTRA),
         # the weak-precondition variant runs out of memory (23 GB) with the
         # unbounded for(;;) key-folding loop unwound over an exact-size phrase object
         _method("bsdicrypt", "M_bsdicrypt", [], ["crypt_bsdicrypt_rn", "des_gen_hash", "ascii_to_bin"], weak=True,
                 extra=dict(DES_EXTRA, wip=True))]

# crypt_yescrypt_rn: the $y$/$7$ wrapper with the yescrypt core replaced by assumed contracts
JOBS += [{"name": "yescrypt_wrapper", "props": ["C01", "C04", "C05", "C06", "C15", "C19"],
          "functions": ["crypt_yescrypt_rn"],
          "harness": "harness/yescrypt_wrap.c", "verif_src": ["models/strings.c"], "defs": ["XV_STR_SCAN=385", "XV_STRCPY_MAX=384"],
          "unwind": 10, "bounds": {"SPAN": 64, "STR": 385, "SPANEXACT": 24, "STRCPY": 384}, "mem_gb": 4, "timeout": 600,
          "no_native": True,
          "bound": "strlen (setting) < 512",
          "assumptions": ["assumed (not enforced) contracts of yescrypt_init_local, yescrypt_r, yescrypt_free_local: see harness/yescrypt_wrap.c"]}]

def _D20(x):
    """number of decimal digits of a 64-bit value, as an expression (19 comparisons)"""
    return "(1 + " + " + ".join("(%s >= 1%sUL)" % (x, "0" * k) for k in range(1, 20)) + ")"

SHA1_LOOPS = [
    # the digit-counting loop of the length check (the F1 repair): il counts the digits of `iterations`
    {"function": "_crypt_crypt_sha1crypt_rn", "anchor": "for (ul = iterations; ul >= 10; ul /= 10)",
     "invariant": "il >= 1 && il <= 20 && il + %s == %s + 1" % (_D20("ul"), _D20("iterations")), "decreases": "ul",
     "assigns": "il, ul"},
    {"function": "_crypt_crypt_sha1crypt_rn", "anchor": "for (i = 1; i < iterations; ++i)",
     "invariant": "i >= 1 && (i <= iterations || i == 1) && xv_hmac_calls >= 1", "decreases": "iterations - i"},
]
# crypt_sha1crypt_rn: the generic method harness ran out of memory on it; it has its own
# lean harness (job "sha1crypt" below, harness/sha1crypt.c)

def _region(unit):
    return {"name": "yescrypt_region_" + unit, "props": ["C15", "C04"],
            "functions": ["alloc_region"] if unit == "alloc" else ["free_region", "init_region"],
            "harness": "harness/yescrypt_region.c", "defs": ["U_%s=1" % unit],
            "unwind": 4, "mem_gb": 2, "timeout": 120, "no_native": True,
            "assumptions": ["mmap/munmap model: each call may fail independently; a successful mmap returns a fresh object"]}

JOBS += [_region("alloc"), _region("free")]

JOBS.append({"name": "scrypt_wrapper", "props": ["C05", "C04", "C07", "C01"], "functions": ["crypt_scrypt_rn", "verify_salt", "check_salt_char"],
             "harness": "harness/scrypt_wrap.c", "defs": [], "verif_src": ["models/strings.c"],
             "loops": [{"function": "verify_salt", "anchor": "for (size_t i = 3 + 1 + 5 * 2; i < set_size; i++)",
                        "invariant": "i >= 14 && (set_size < 14 ? i == 14 : (i <= set_size && i <= g_fb))", "decreases": "set_size - i"}],
             "unwind": 4, "mem_gb": 4, "timeout": 600, "no_native": True,
             "assumptions": ["crypt_yescrypt_rn replaced by a recording stub; its contract is enforced by yescrypt_wrapper"]})

JOBS.append({"name": "sha1crypt", "props": ["C01", "C03", "C04", "C05", "C06", "C07", "C09", "C11"], "functions": ["crypt_sha1crypt_rn", "to64"],
             "harness": "harness/sha1crypt.c", "defs": ["XV_BZERO_EVENTS=1", "SETOBJ=136", "XV_PCTS=104", "SCR_CONST=1"], "verif_src": ["models/strings.c"], "repo_src": ["lib/util-base64.c"],
             "late_src": ["models/snprintf.c"],
             "loops": [SHA1_LOOPS[0],
                       {"function": "_crypt_crypt_sha1crypt_rn", "anchor": "for (i = 1; i < iterations; ++i)",
                        "invariant": "i >= 1 && (i <= iterations || i == 1) && g_calls == i && h_args_ok && h1_len == __CPROVER_loop_entry(h1_len) && h1_at_j == __CPROVER_loop_entry(h1_at_j)", "decreases": "iterations - i",
                        "assigns": "i, g_calls, h_args_ok, h1_len, h1_at_j, __CPROVER_object_whole(hmac_buf)"}],
             "cases": [("nd%d" % k, "nd == %d" % k, ["XV_BIGDEC=1"] if k > 10 else []) for k in range(21)],
             # one case is about 4 minutes of solver time on an idle core; the quick commands have to stay well under 15 minutes
             "cases_quick": ["nd1"],
             "cases_quick_note": "quick tier: a 1-digit iteration field; thorough tier: every length 0..20 (exhaustive for the stated domain)",
             "unwind": 10, "bounds": {"SPAN": 64, "STR": 32, "SPANEXACT": 24, "PCTS": 104}, "mem_gb": 6, "timeout": 2400, "no_native": True,
             "bound": "strlen (setting) < 136, salt field of at most 104 characters (the first size check of the function assumes 64; the overrun it missed needs 65 or more)",
             "assumptions": ["hmac_sha1_process_data replaced by its contract (job hmac_sha1)", "A-dec for the printed iteration count"]})

JOBS.append({"name": "nt", "props": ["C01", "C02", "C03", "C04", "C05", "C06", "C07"], "functions": ["crypt_nt_rn"],
             "harness": "harness/nt.c", "defs": ["XV_STRCPY_MAX=384"], "verif_src": ["models/strings.c"],
             "loops": [{"function": "_crypt_crypt_nt_rn", "anchor": "for (size_t i = 0; i < phr_size; i++)", "nth": 0,
                        "invariant": "i <= phr_size && (g_j >= i || (intbuf->unipw[2 * g_j] == g_phr[g_j] && intbuf->unipw[2 * g_j + 1] == 0))",
                        "assigns": "i, __CPROVER_object_whole(intbuf)", "decreases": "phr_size - i"}],
             "unwind": 18, "bounds": {"STR": 32, "STRCPY": 384}, "mem_gb": 6, "timeout": 900, "no_native": True,
             "assumptions": ["MD4_Init/Update/Final and strcpy_or_abort replaced by their contracts (md4_*, leaf_strcpy_or_abort)"]})

JOBS.append({"name": "gost_yescrypt_wrapper", "props": ["C01", "C03", "C04", "C05", "C06", "C15"], "functions": ["crypt_gost_yescrypt_rn"],
             "harness": "harness/gost_yescrypt_wrap.c", "defs": ["XV_STR_SCAN=129", "XV_STRCPY_MAX=384", "GY_SET=80"], "verif_src": ["models/strings.c"],
             "unwind": 10, "bounds": {"SPAN": 64, "STR": 129, "SPANEXACT": 24, "STRCPY": 384, "GYMAX": 128, "GYSET": 80}, "unwindset": ["strchr.0:130"],
             "mem_gb": 8, "timeout": 2400, "no_native": True, "wip": True,
             "bound": "strlen (setting) < 80 (a default $gy$ setting from crypt_gensalt is about 30 characters, 73 with a full hash)",
             "assumptions": ["assumed (not enforced) contracts of yescrypt_init_local, yescrypt_r, yescrypt_free_local, yescrypt_decode64, yescrypt_encode64, gost_hash256, gost_hmac256: see harness/gost_yescrypt_wrap.c"]})

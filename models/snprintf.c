/* Trusted model of snprintf for the directives libxcrypt uses:
   %s %c %u %lu %zu %.*s and literal text.  Linked AFTER loop-contract
   instrumentation (DESIGN.md T8).

   Decimal conversion: the number of digits comes from xv_dec_ndigits (xv.h,
   comparisons with powers of ten); the digits are nondeterministic values
   pinned by a Horner evaluation, so "parsing the printed field gives the
   number back" is immediate for the solver.

   %s scans at most XV_SNPRINTF_SCAN bytes (every %s argument in the library
   is a short literal; an unwinding assertion fails if that is not enough).
   %.*s from a registered caller string (models/strings.h) is a bulk memcpy
   of min(precision, ghost length) bytes.

   C semantics kept: at most size-1 characters are stored followed by NUL
   (nothing is stored when size == 0); the return value is the length the
   full output would have had.  */
#include <stdarg.h>
#include <stddef.h>
#include <stdint.h>
#include "xv.h"
#include "models/strings.h"

/* Ghost log of the decimal fields printed so far: where, which value, how
   many digits, which digit bytes.  "These bytes are the decimal
   representation of v" is snprintf's contract; callers' postconditions about
   printed numbers are stated against this record (value equality plus
   byte-for-byte persistence) instead of re-deriving decimal arithmetic, which
   the SAT back end cannot do for 9-10 digit numbers in reasonable time.  */
struct xv_dec_rec xv_dec_log[XV_DEC_LOG];
unsigned xv_dec_n;

#ifndef XV_PCTS
#define XV_PCTS 384
#endif
#ifndef XV_SNPRINTF_SCAN
#define XV_SNPRINTF_SCAN 40
#endif

static size_t xv_put (char *str, size_t size, size_t pos, char c)
{
  if (size > 0 && pos < size - 1)
    str[pos] = c;
  return pos + 1;
}

/* Decimal conversion.  Up to 10 digits: the fast path used by almost every
   caller.  11..20 digits (sha1crypt prints whatever iteration count strtoul
   accepted): same construction with a 128-bit Horner accumulator, so that the
   digit string is still pinned uniquely.  */
static size_t xv_put_dec (char *str, size_t size, size_t pos, unsigned long long v)
{
  unsigned nd = xv_dec_ndigits (v);          /* 1..10, or 10 for anything larger */
  _Bool big = v > 9999999999ULL;
  unsigned char d[20];
  if (!big)
    {
      unsigned long long acc = 0;
      for (unsigned i = 0; i < 10; i++)   /* XV_UNWIND 10 */
        {
          d[i] = nondet_uchar ();
          __CPROVER_assume (d[i] <= 9);
          if (i < nd)
            acc = acc * 10 + d[i];
        }
      __CPROVER_assume (acc == v);
    }
  else
    {
      /* 11..20 digits (only sha1crypt prints such numbers: whatever
         iteration count strtoul accepted).  The number of digits is exact
         (comparisons with powers of ten); the digit values are left
         arbitrary - an over-approximation of snprintf - except that equal
         values print equal digits (snprintf is a function of its
         arguments).  No 128-bit decimal arithmetic for the solver.  */
      nd = xv_dec_ndigits20 (v);
      for (unsigned i = 0; i < 20; i++)   /* XV_UNWIND 20 */
        {
          d[i] = nondet_uchar ();
          __CPROVER_assume (d[i] <= 9);
        }
      for (unsigned r = 0; r < XV_DEC_LOG; r++)
        if (r < xv_dec_n && xv_dec_log[r].v == v)
          for (unsigned i = 0; i < 10; i++)   /* XV_UNWIND 10 */
            __CPROVER_assume (d[i] == xv_dec_log[r].dig[i] && d[10 + i] == xv_dec_log[r].digx[i]);
    }
  __CPROVER_assume (nd == 1 || d[0] != 0);   /* canonical form; implied, stated to spare the solver the arithmetic */
  /* A-dec: a number that strtoul parsed from a canonical digit string prints
     as exactly those digits */
  for (unsigned r = 0; r < XV_PARSE_LOG; r++)
    if (r < xv_parse_n && !xv_parse_log[r].overflow && xv_parse_log[r].v == v
        && xv_parse_log[r].nd == nd && nd <= 10 && xv_parse_log[r].dig[0] != 0)
      for (unsigned i = 0; i < 10; i++)   /* XV_UNWIND 10 */
        if (i < nd)
          __CPROVER_assume (d[i] == xv_parse_log[r].dig[i]);
  if (xv_dec_n < XV_DEC_LOG)
    {
      xv_dec_log[xv_dec_n].at = str + pos;
      xv_dec_log[xv_dec_n].v = v;
      xv_dec_log[xv_dec_n].nd = nd;
      for (unsigned i = 0; i < 10; i++)   /* XV_UNWIND 10 */
        {
          xv_dec_log[xv_dec_n].dig[i] = d[i];
          xv_dec_log[xv_dec_n].digx[i] = big ? d[10 + i] : 0;
        }
      xv_dec_n++;
    }
  /* digit i goes to pos + i: keeps the indices constant when pos is */
  for (unsigned i = 0; i < 20; i++)   /* XV_UNWIND 20 */
    if (i < nd)
      (void) xv_put (str, size, pos + i, (char) ('0' + (int) d[i]));
  pos += nd;
  return pos;
}

static size_t xv_put_str (char *str, size_t size, size_t pos, const char *s, size_t maxlen)
{
  size_t reglen;
  if (maxlen != (size_t) -1 && xv_str_lookup (s, &reglen))
    {
      /* "%.*s" from a registered caller string (sha1crypt copies the salt
         this way): one bulk copy of the part that fits.  */
      size_t n = reglen < maxlen ? reglen : maxlen;
      size_t room = (size > 0 && pos < size - 1) ? size - 1 - pos : 0;
      size_t c = n < room ? n : room;
      /* bounded element copy (the output buffers are at most 384 bytes; a job
         whose input domain is smaller lowers XV_PCTS - every symbolic-index
         access to the same array costs the solver quadratically) */
      __CPROVER_assert (c <= XV_PCTS, "snprintf model: no more than XV_PCTS characters copied by %.*s (domain bound of the job)");
      for (size_t i = 0; i < XV_PCTS; i++)   /* XV_UNWIND PCTS */
        if (i < c)
          str[pos + i] = s[i];
      return pos + n;
    }
  for (size_t i = 0; i < XV_SNPRINTF_SCAN; i++)   /* XV_UNWIND 40 */
    {
      if (i >= maxlen || s[i] == 0)
        return pos;
      pos = xv_put (str, size, pos, s[i]);
    }
  __CPROVER_assert (0, "unwinding assertion: snprintf %s argument longer than the model's scan bound");
  return pos;
}

int snprintf (char *str, size_t size, const char *fmt, ...)
{
  va_list ap;
  va_start (ap, fmt);
  size_t pos = 0;
  for (size_t i = 0; fmt[i] != 0; i++)   /* XV_UNWIND 20 */
    {
      if (fmt[i] != '%')
        {
          pos = xv_put (str, size, pos, fmt[i]);
          continue;
        }
      i++;
      if (fmt[i] == 's')
        pos = xv_put_str (str, size, pos, va_arg (ap, const char *), (size_t) -1);
      else if (fmt[i] == 'c')
        pos = xv_put (str, size, pos, va_arg (ap, char));   /* CBMC stores the argument unpromoted */
      else if (fmt[i] == 'u')
        pos = xv_put_dec (str, size, pos, va_arg (ap, unsigned int));
      else if (fmt[i] == 'l' && fmt[i + 1] == 'u')
        { i++; pos = xv_put_dec (str, size, pos, va_arg (ap, unsigned long)); }
      else if (fmt[i] == 'z' && fmt[i + 1] == 'u')
        { i++; pos = xv_put_dec (str, size, pos, va_arg (ap, size_t)); }
      else if (fmt[i] == '.' && fmt[i + 1] == '*' && fmt[i + 2] == 's')
        {
          i += 2;
          int prec = va_arg (ap, int);
          const char *s = va_arg (ap, const char *);
          pos = xv_put_str (str, size, pos, s, prec < 0 ? (size_t) -1 : (size_t) prec);
        }
      else if (fmt[i] == '%')
        pos = xv_put (str, size, pos, '%');
      else
        __CPROVER_assert (0, "snprintf model: unsupported directive");
    }
  va_end (ap);
  if (size > 0)
    str[pos < size - 1 ? pos : size - 1] = 0;
  return (int) pos;
}

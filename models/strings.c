/* Trusted models of the <string.h> functions whose loops depend on input
   length.  See models/strings.h.  Linked like ordinary source (before the
   loop-contract pass); no loops with symbolic bounds.  */
#include "xv.h"
#include <limits.h>
#include "models/strings.h"

struct xv_str xv_strs[XV_MAXSTR];
int xv_nstrs;

#ifndef XV_STR_SCAN
#define XV_STR_SCAN 32   /* fallback scan bound for unregistered (short, library-owned) strings */
#endif

void xv_str_reset (void) { xv_nstrs = 0; }

void xv_str_register (const char *p, size_t len)
{
  __CPROVER_assert (xv_nstrs < XV_MAXSTR, "string registry full");
  xv_strs[xv_nstrs].p = p;
  xv_strs[xv_nstrs].len = len;
  xv_nstrs++;
}

_Bool xv_str_lookup (const char *s, size_t *remaining)
{
  for (int i = 0; i < XV_MAXSTR; i++)
    if (i < xv_nstrs && __CPROVER_same_object (s, xv_strs[i].p))
      {
        size_t off = (size_t) (s - xv_strs[i].p);
        __CPROVER_assert (s >= xv_strs[i].p && off <= xv_strs[i].len,
                          "[C04] string function applied at or before the terminating NUL of a caller string");
        *remaining = xv_strs[i].len - off;
        return 1;
      }
  return 0;
}

size_t strlen (const char *s)
{
  size_t r;
  if (xv_str_lookup (s, &r))
    return r;
  for (size_t i = 0; i < XV_STR_SCAN; i++)   /* XV_UNWIND STR */
    if (s[i] == 0)
      return i;
  __CPROVER_assert (0, "unwinding assertion: strlen of an unregistered string longer than the model's scan bound");
  return 0;
}

/* strcspn / strspn.
   For a registered caller string the result r is chosen nondeterministically
   under the function's contract:
     r <= remaining length;
     r == remaining length, or s[r] is a stop character;
     no stop character (and no NUL) before r - a universal statement, which
     is instantiated at the harness's arbitrary-but-fixed indices
     xv_ghost_idx[] (absolute positions in the registered string).  Every
     obligation that needs this fact is itself stated at one of those
     indices.
   For other strings (short literals and library-owned buffers) the string is
   scanned, at most XV_SPAN_SCAN characters.  */
#ifndef XV_SPAN_SCAN
#define XV_SPAN_SCAN 64
#endif
#ifndef XV_SPAN_EXACT
#define XV_SPAN_EXACT 24
#endif
size_t xv_ghost_idx[XV_NGHOST];

static _Bool xv_in_set (char c, const char *set)
{
  /* every set the library passes has at most 64 members */
  for (int j = 0; j < 65; j++)   /* XV_UNWIND 65 */
    {
      if (set[j] == 0) return 0;
      if (set[j] == c) return 1;
    }
  __CPROVER_assert (0, "unwinding assertion: strcspn/strspn set longer than 64");
  return 0;
}

static size_t xv_span (const char *s, const char *set, _Bool want_member)
{
  size_t len;
  if (xv_str_lookup (s, &len))
    {
      /* exact for the first XV_SPAN_EXACT characters (the salt prefixes the
         methods care about are short) ... */
      for (size_t i = 0; i < XV_SPAN_EXACT; i++)   /* XV_UNWIND SPANEXACT */
        {
          if (i >= len) return len;
          if (xv_in_set (s[i], set) != want_member) return i;
        }
      /* ... and by contract beyond */
      size_t r = nondet_size ();
      __CPROVER_assume (r >= XV_SPAN_EXACT && r <= len);
      __CPROVER_assume (r == len || xv_in_set (s[r], set) != want_member);
      size_t base = 0;
      for (int i = 0; i < XV_MAXSTR; i++)
        if (i < xv_nstrs && __CPROVER_same_object (s, xv_strs[i].p))
          base = (size_t) (s - xv_strs[i].p);
      for (int g = 0; g < XV_NGHOST; g++)
        if (xv_ghost_idx[g] >= base && xv_ghost_idx[g] - base < r)
          __CPROVER_assume (xv_in_set (s[xv_ghost_idx[g] - base], set) == want_member
                            && s[xv_ghost_idx[g] - base] != 0);
      return r;
    }
  for (size_t i = 0; i < XV_SPAN_SCAN; i++)   /* XV_UNWIND SPAN */
    {
      if (s[i] == 0) return i;
      if (xv_in_set (s[i], set) != want_member) return i;
    }
  __CPROVER_assert (0, "unwinding assertion: strcspn/strspn on an unregistered string longer than the scan bound");
  return 0;
}

size_t strcspn (const char *s, const char *reject) { return xv_span (s, reject, 0); }
size_t strspn (const char *s, const char *accept) { return xv_span (s, accept, 1); }

int xv_errno;

/* explicit_bzero (libc on this configuration, HAVE_EXPLICIT_BZERO).
   Contract: zeroes exactly [s, s+n) and is never optimised away.
   Two models:
   - default: performs the write (memset);
   - XV_BZERO_EVENTS: records the call in a ghost log and leaves memory alone.
     Used where the region is tens of kilobytes inside a struct, which CBMC
     bit-blasts: the caller's postcondition "the field is all zero at return"
     is then derived from this contract (logged call covering the whole field
     after the last writer) plus a frame obligation that the caller itself
     does not write the field.  */
struct xv_bzero_ev xv_bzero_log[XV_BZERO_LOG];
unsigned xv_bzero_n;

void explicit_bzero (void *s, size_t n)
{
  __CPROVER_assert (n == 0 || __CPROVER_w_ok (s, n), "[C04] explicit_bzero: region is writable");
#ifdef XV_BZERO_EVENTS
  if (xv_bzero_n < XV_BZERO_LOG)
    {
      xv_bzero_log[xv_bzero_n].p = s;
      xv_bzero_log[xv_bzero_n].n = n;
      xv_bzero_log[xv_bzero_n].seq = xv_event_seq++;
      xv_bzero_n++;
    }
  else
    __CPROVER_assert (0, "unwinding assertion: explicit_bzero ghost log full");
#else
#ifndef PROBE_NOBZERO
  if (n > 0)
    memset (s, 0, n);
#endif
#endif
}
unsigned xv_event_seq;


/* strtoul (nptr, endptr, 10): optional sign, digit run, C's "no conversion"
   case (value 0, *endptr = nptr); leading white space is outside the model
   (an obligation fails if it occurs).  Value: Horner evaluation of the
   digit run with C's saturation (ULONG_MAX and errno = ERANGE on overflow).
   The digit run is scanned exactly for 20 characters (ULONG_MAX has 20
   digits, so a longer run has certainly overflowed); a longer run ends at a
   nondeterministic position constrained like strcspn's result.  */
struct xv_parse_rec xv_parse_log[XV_PARSE_LOG];
unsigned xv_parse_n;

unsigned long strtoul (const char *nptr, char **endptr, int base)
{
  __CPROVER_assert (base == 10, "strtoul model: base 10 only");
  size_t len0 = 0;
  _Bool reg = xv_str_lookup (nptr, &len0);
  __CPROVER_assert (reg, "strtoul model: argument is a caller string");
  /* leading white space is not modelled (do_crypt refuses settings that
     contain any); an optional sign is */
  __CPROVER_assert (len0 == 0 || !(nptr[0] == ' ' || (nptr[0] >= 9 && nptr[0] <= 13)),
                    "strtoul model: no leading white space");
  const char *start = nptr;
  _Bool neg = 0;
  if (len0 > 0 && (nptr[0] == '+' || nptr[0] == '-'))
    {
      neg = nptr[0] == '-';
      nptr++;
    }
  size_t len = len0 - (size_t) (nptr - start);
  unsigned long acc = 0;
  _Bool ovf = 0;
  size_t nd = 0;
  _Bool run = 1;
  unsigned char dig[10];
  for (size_t i = 0; i < 20; i++)   /* XV_UNWIND 20 */
    {
      if (run && i < len && nptr[i] >= '0' && nptr[i] <= '9')
        {
          unsigned long d = (unsigned long) (nptr[i] - '0');
          if (i < 10) dig[i] = (unsigned char) d;
          /* acc * 10 + d > ULONG_MAX, without division by a symbolic value */
          if (acc > ULONG_MAX / 10 || (acc == ULONG_MAX / 10 && d > ULONG_MAX % 10)) ovf = 1;
          acc = acc * 10 + d;
          nd++;
        }
      else
        run = 0;
    }
  size_t end = nd;
  if (run && nd == 20)
    {
      /* more than 20 digits: certainly out of range */
      ovf = 1;
      size_t r = nondet_size ();
      __CPROVER_assume (r >= 20 && r <= len);
      __CPROVER_assume (r == len || !(nptr[r] >= '0' && nptr[r] <= '9'));
      /* the run continues past 20 only over digits: stated for the first of
         them (the rest of the universal statement is not needed by any caller) */
      __CPROVER_assume (r == 20 || (nptr[20] >= '0' && nptr[20] <= '9'));
      end = r;
    }
  if (nd == 0)
    {
      /* no conversion: value 0, *endptr = the original nptr */
      if (endptr)
        *endptr = (char *) start;
      return 0;
    }
  if (endptr)
    *endptr = (char *) nptr + end;
  if (xv_parse_n < XV_PARSE_LOG)
    {
      xv_parse_log[xv_parse_n].at = nptr;
      xv_parse_log[xv_parse_n].nd = (unsigned) (nd < 11 ? nd : 11);
      for (unsigned i = 0; i < 10; i++)   /* XV_UNWIND 10 */
        xv_parse_log[xv_parse_n].dig[i] = dig[i];
      xv_parse_log[xv_parse_n].v = ovf ? ULONG_MAX : (neg ? -acc : acc);
      xv_parse_log[xv_parse_n].overflow = ovf || neg;
      xv_parse_n++;
    }
  if (ovf)
    {
      errno = ERANGE;
      return ULONG_MAX;
    }
  return neg ? -acc : acc;
}

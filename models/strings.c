/* Trusted models of the <string.h> functions whose loops depend on input
   length.  See models/strings.h.  Linked like ordinary source (before the
   loop-contract pass); no loops with symbolic bounds.  */
#include "xv.h"
#include "models/strings.h"

struct xv_str xv_strs[XV_MAXSTR];
int xv_nstrs;

#ifndef XV_STR_SCAN
#define XV_STR_SCAN 32   /* fallback scan bound for unregistered (short, library-owned) strings */
#endif

void xv_str_reset (void) { xv_nstrs = 0; }

void xv_str_register (const char *p, size_t len)
{
  __CPROVER_assert (xv_nstrs < XV_MAXSTR, "string registry full");
  xv_strs[xv_nstrs].p = p;
  xv_strs[xv_nstrs].len = len;
  xv_nstrs++;
}

_Bool xv_str_lookup (const char *s, size_t *remaining)
{
  for (int i = 0; i < XV_MAXSTR; i++)
    if (i < xv_nstrs && __CPROVER_same_object (s, xv_strs[i].p))
      {
        size_t off = (size_t) (s - xv_strs[i].p);
        __CPROVER_assert (s >= xv_strs[i].p && off <= xv_strs[i].len,
                          "[C04] string function applied at or before the terminating NUL of a caller string");
        *remaining = xv_strs[i].len - off;
        return 1;
      }
  return 0;
}

size_t strlen (const char *s)
{
  size_t r;
  if (xv_str_lookup (s, &r))
    return r;
  for (size_t i = 0; i < XV_STR_SCAN; i++)
    if (s[i] == 0)
      return i;
  __CPROVER_assert (0, "unwinding assertion: strlen of an unregistered string longer than the model's scan bound");
  return 0;
}

/* Ghost registry of caller strings.  A harness registers each
   NUL-terminated input string together with its length (the position of the
   terminating NUL, which the harness has written); the string models answer
   length questions from the registry instead of scanning, so string length
   is unbounded in the proofs.  */
#ifndef XV_STRINGS_H
#define XV_STRINGS_H 1
#include <stddef.h>
#define XV_MAXSTR 4
#define XV_NGHOST 2
/* arbitrary-but-fixed positions at which the string models instantiate their
   universally quantified postconditions (set by the harness; SIZE_MAX = unused) */
extern size_t xv_ghost_idx[XV_NGHOST];
struct xv_str { const char *p; size_t len; };
extern struct xv_str xv_strs[XV_MAXSTR];
extern int xv_nstrs;
void xv_str_reset (void);
void xv_str_register (const char *p, size_t len);
/* If s points into a registered string, at or before its NUL, store the
   number of characters before the NUL in *remaining and return 1.  */
_Bool xv_str_lookup (const char *s, size_t *remaining);

/* ghost log of explicit_bzero calls (see models/strings.c) and a global
   event counter shared with contract stubs that need ordering */
#define XV_BZERO_LOG 8
struct xv_bzero_ev { const void *p; size_t n; unsigned seq; };
extern struct xv_bzero_ev xv_bzero_log[XV_BZERO_LOG];
extern unsigned xv_bzero_n;
extern unsigned xv_event_seq;
/* some logged call after event `after` zeroed exactly [p, p+n) */
static inline _Bool xv_bzeroed_after (const void *p, size_t n, unsigned after)
{
  _Bool hit = 0;
  for (unsigned i = 0; i < XV_BZERO_LOG; i++)
    if (i < xv_bzero_n && xv_bzero_log[i].p == p && xv_bzero_log[i].n == n && xv_bzero_log[i].seq > after)
      hit = 1;
  return hit;
}

/* ghost log of the numbers the strtoul model parsed: where, how many digits,
   the digit values, the value, whether it overflowed.  Together with the
   print log below it carries assumption A-dec (the canonical decimal
   representation of a number is unique): when snprintf prints a value that
   strtoul parsed from a canonical digit string (no leading zero, no
   overflow) of at most 10 digits, the printed digits are those digits.  */
#define XV_PARSE_LOG 2
struct xv_parse_rec { const char *at; unsigned nd; unsigned char dig[10]; unsigned long v; _Bool overflow; };
extern struct xv_parse_rec xv_parse_log[XV_PARSE_LOG];
extern unsigned xv_parse_n;

/* ghost log of decimal fields printed by the snprintf model (models/snprintf.c) */
#define XV_DEC_LOG 4
struct xv_dec_rec { const char *at; unsigned long long v; unsigned nd; unsigned char dig[10]; unsigned char digx[10]; /* digits 10..19 of an 11..20-digit field */ };
extern struct xv_dec_rec xv_dec_log[XV_DEC_LOG];
extern unsigned xv_dec_n;
/* the nd bytes at p are the decimal field recorded for value v */
static inline _Bool xv_dec_field_is (const unsigned char *p, unsigned long long v, unsigned nd)
{
  _Bool found = 0;
  for (unsigned r = 0; r < XV_DEC_LOG; r++)
    if (r < xv_dec_n && xv_dec_log[r].at == (const char *) p && xv_dec_log[r].v == v && xv_dec_log[r].nd == nd)
      {
        _Bool same = 1;
        for (unsigned i = 0; i < 10; i++)   /* XV_UNWIND 10 */
          if (i < nd && p[i] != (unsigned char) ('0' + xv_dec_log[r].dig[i]))
            same = 0;
        if (same)
          found = 1;
      }
  return found;
}
#endif

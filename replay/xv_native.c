/* Native replay support: feeds the inputs extracted from a CBMC
   counterexample into the same harness text compiled with -DXV_NATIVE and
   linked against the real library objects (built from /repo's working tree
   with ASan+UBSan).  */
#include <stdio.h>
#include <stdlib.h>
#include <string.h>

int xv_native_failures = 0;
static const char *replay_path;

struct ent { char name[128]; char *val; };
static struct ent ents[4096];
static int nents;

static void load (void)
{
  static int loaded;
  if (loaded) return;
  loaded = 1;
  replay_path = getenv ("XV_REPLAY_INPUTS");
  if (!replay_path) { fprintf (stderr, "XV_REPLAY_INPUTS not set\n"); exit (2); }
  FILE *f = fopen (replay_path, "r");
  if (!f) { perror (replay_path); exit (2); }
  char *line = NULL; size_t cap = 0;
  while (getline (&line, &cap, f) > 0 && nents < 4096)
    {
      char *sp = strchr (line, ' ');
      if (!sp) continue;
      *sp = 0;
      char *v = sp + 1;
      v[strcspn (v, "\r\n")] = 0;
      snprintf (ents[nents].name, sizeof ents[nents].name, "%s", line);
      ents[nents].val = strdup (v);
      nents++;
    }
  fclose (f);
}

static const char *lookup (const char *name)
{
  load ();
  for (int i = nents - 1; i >= 0; i--)
    if (!strcmp (ents[i].name, name))
      return ents[i].val;
  return NULL;
}

unsigned long long xv_replay_scalar (const char *name, int *found)
{
  const char *v = lookup (name);
  if (found) *found = v != NULL;
  if (!v) { printf ("REPLAY-NOTE input %s not in counterexample, using 0\n", name); return 0; }
  return strtoull (v, NULL, 0);
}

size_t xv_replay_bytes (const char *name, unsigned char *dst, size_t max)
{
  char key[160];
  snprintf (key, sizeof key, "%s[]", name);
  const char *v = lookup (key);
  if (!v) return 0;
  size_t n = 0;
  while (v[0] && v[1] && n < max)
    {
      unsigned int b;
      if (sscanf (v, "%2x", &b) != 1) break;
      dst[n++] = (unsigned char) b;
      v += 2;
    }
  return n;
}

extern void XV_ENTRY (void);

int main (void)
{
  setvbuf (stdout, NULL, _IONBF, 0);
  XV_ENTRY ();
  if (xv_native_failures)
    {
      printf ("REPLAY-RESULT reproduced failures=%d\n", xv_native_failures);
      return 1;
    }
  printf ("REPLAY-RESULT not-reproduced\n");
  return 0;
}

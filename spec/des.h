/* FIPS PUB 46-3 (DES) transcribed at the bit level: initial and final
   permutation, expansion E, S-boxes S1..S8, permutation P, PC-1, PC-2, the
   shift schedule.  Bit 1 is the most significant bit of a block, as in the
   standard.  Independent of lib/alg-des*.c (the library uses 33 KiB of
   precomputed combined tables).  The crypt(3) salt extension (V7 Unix): for
   each set bit i (0..23) of the 24-bit salt, bits i+1 and i+25 of the
   expansion's output are exchanged before the round key is added; with salt
   0 this is FIPS DES.  */
#ifndef XV_SPEC_DES_H
#define XV_SPEC_DES_H 1
#include <stdint.h>

static const unsigned char DES_IP[64] = {
  58, 50, 42, 34, 26, 18, 10, 2, 60, 52, 44, 36, 28, 20, 12, 4,
  62, 54, 46, 38, 30, 22, 14, 6, 64, 56, 48, 40, 32, 24, 16, 8,
  57, 49, 41, 33, 25, 17, 9, 1, 59, 51, 43, 35, 27, 19, 11, 3,
  61, 53, 45, 37, 29, 21, 13, 5, 63, 55, 47, 39, 31, 23, 15, 7 };
static const unsigned char DES_FP[64] = {
  40, 8, 48, 16, 56, 24, 64, 32, 39, 7, 47, 15, 55, 23, 63, 31,
  38, 6, 46, 14, 54, 22, 62, 30, 37, 5, 45, 13, 53, 21, 61, 29,
  36, 4, 44, 12, 52, 20, 60, 28, 35, 3, 43, 11, 51, 19, 59, 27,
  34, 2, 42, 10, 50, 18, 58, 26, 33, 1, 41, 9, 49, 17, 57, 25 };
static const unsigned char DES_E[48] = {
  32, 1, 2, 3, 4, 5, 4, 5, 6, 7, 8, 9, 8, 9, 10, 11, 12, 13, 12, 13, 14, 15, 16, 17,
  16, 17, 18, 19, 20, 21, 20, 21, 22, 23, 24, 25, 24, 25, 26, 27, 28, 29, 28, 29, 30, 31, 32, 1 };
static const unsigned char DES_P[32] = {
  16, 7, 20, 21, 29, 12, 28, 17, 1, 15, 23, 26, 5, 18, 31, 10,
  2, 8, 24, 14, 32, 27, 3, 9, 19, 13, 30, 6, 22, 11, 4, 25 };
static const unsigned char DES_S[8][64] = {
  { 14, 4, 13, 1, 2, 15, 11, 8, 3, 10, 6, 12, 5, 9, 0, 7, 0, 15, 7, 4, 14, 2, 13, 1, 10, 6, 12, 11, 9, 5, 3, 8,
    4, 1, 14, 8, 13, 6, 2, 11, 15, 12, 9, 7, 3, 10, 5, 0, 15, 12, 8, 2, 4, 9, 1, 7, 5, 11, 3, 14, 10, 0, 6, 13 },
  { 15, 1, 8, 14, 6, 11, 3, 4, 9, 7, 2, 13, 12, 0, 5, 10, 3, 13, 4, 7, 15, 2, 8, 14, 12, 0, 1, 10, 6, 9, 11, 5,
    0, 14, 7, 11, 10, 4, 13, 1, 5, 8, 12, 6, 9, 3, 2, 15, 13, 8, 10, 1, 3, 15, 4, 2, 11, 6, 7, 12, 0, 5, 14, 9 },
  { 10, 0, 9, 14, 6, 3, 15, 5, 1, 13, 12, 7, 11, 4, 2, 8, 13, 7, 0, 9, 3, 4, 6, 10, 2, 8, 5, 14, 12, 11, 15, 1,
    13, 6, 4, 9, 8, 15, 3, 0, 11, 1, 2, 12, 5, 10, 14, 7, 1, 10, 13, 0, 6, 9, 8, 7, 4, 15, 14, 3, 11, 5, 2, 12 },
  { 7, 13, 14, 3, 0, 6, 9, 10, 1, 2, 8, 5, 11, 12, 4, 15, 13, 8, 11, 5, 6, 15, 0, 3, 4, 7, 2, 12, 1, 10, 14, 9,
    10, 6, 9, 0, 12, 11, 7, 13, 15, 1, 3, 14, 5, 2, 8, 4, 3, 15, 0, 6, 10, 1, 13, 8, 9, 4, 5, 11, 12, 7, 2, 14 },
  { 2, 12, 4, 1, 7, 10, 11, 6, 8, 5, 3, 15, 13, 0, 14, 9, 14, 11, 2, 12, 4, 7, 13, 1, 5, 0, 15, 10, 3, 9, 8, 6,
    4, 2, 1, 11, 10, 13, 7, 8, 15, 9, 12, 5, 6, 3, 0, 14, 11, 8, 12, 7, 1, 14, 2, 13, 6, 15, 0, 9, 10, 4, 5, 3 },
  { 12, 1, 10, 15, 9, 2, 6, 8, 0, 13, 3, 4, 14, 7, 5, 11, 10, 15, 4, 2, 7, 12, 9, 5, 6, 1, 13, 14, 0, 11, 3, 8,
    9, 14, 15, 5, 2, 8, 12, 3, 7, 0, 4, 10, 1, 13, 11, 6, 4, 3, 2, 12, 9, 5, 15, 10, 11, 14, 1, 7, 6, 0, 8, 13 },
  { 4, 11, 2, 14, 15, 0, 8, 13, 3, 12, 9, 7, 5, 10, 6, 1, 13, 0, 11, 7, 4, 9, 1, 10, 14, 3, 5, 12, 2, 15, 8, 6,
    1, 4, 11, 13, 12, 3, 7, 14, 10, 15, 6, 8, 0, 5, 9, 2, 6, 11, 13, 8, 1, 4, 10, 7, 9, 5, 0, 15, 14, 2, 3, 12 },
  { 13, 2, 8, 4, 6, 15, 11, 1, 10, 9, 3, 14, 5, 0, 12, 7, 1, 15, 13, 8, 10, 3, 7, 4, 12, 5, 6, 11, 0, 14, 9, 2,
    7, 11, 4, 1, 9, 12, 14, 2, 0, 6, 10, 13, 15, 3, 5, 8, 2, 1, 14, 7, 4, 10, 8, 13, 15, 12, 9, 0, 3, 5, 6, 11 } };
static const unsigned char DES_PC1[56] = {
  57, 49, 41, 33, 25, 17, 9, 1, 58, 50, 42, 34, 26, 18, 10, 2, 59, 51, 43, 35, 27, 19, 11, 3, 60, 52, 44, 36,
  63, 55, 47, 39, 31, 23, 15, 7, 62, 54, 46, 38, 30, 22, 14, 6, 61, 53, 45, 37, 29, 21, 13, 5, 28, 20, 12, 4 };
static const unsigned char DES_PC2[48] = {
  14, 17, 11, 24, 1, 5, 3, 28, 15, 6, 21, 10, 23, 19, 12, 4, 26, 8, 16, 7, 27, 20, 13, 2,
  41, 52, 31, 37, 47, 55, 30, 40, 51, 45, 33, 48, 44, 49, 39, 56, 34, 53, 46, 42, 50, 36, 29, 32 };
static const unsigned char DES_SHIFTS[16] = { 1, 1, 2, 2, 2, 2, 2, 2, 1, 2, 2, 2, 2, 2, 2, 1 };

/* bit b (1-based, MSB first) of a 64/32/48/56-bit quantity held in the low
   `width` bits of v */
#define DES_BIT(v, width, b) (((v) >> ((width) - (b))) & 1u)

/* IP: 64-bit block (big-endian bytes as a number) -> (L, R) */
static inline void spec_des_ip (uint64_t blk, uint32_t *L, uint32_t *R)
{
  uint64_t o = 0;
  for (int i = 0; i < 64; i++)
    o = (o << 1) | DES_BIT (blk, 64, DES_IP[i]);
  *L = (uint32_t) (o >> 32);
  *R = (uint32_t) o;
}

/* FP on the preoutput R16 L16 */
static inline uint64_t spec_des_fp (uint32_t hi, uint32_t lo)
{
  uint64_t pre = ((uint64_t) hi << 32) | lo, o = 0;
  for (int i = 0; i < 64; i++)
    o = (o << 1) | DES_BIT (pre, 64, DES_FP[i]);
  return o;
}

/* cipher function f(R, K) with the crypt(3) salt; K is the 48-bit round key,
   salt24 has bit i (LSB = 0) set when expansion bits i+1 and i+25 are swapped */
static inline uint32_t spec_des_f (uint32_t R, uint64_t K, uint32_t salt24)
{
  uint64_t e = 0;
  for (int i = 0; i < 48; i++)
    e = (e << 1) | DES_BIT (R, 32, DES_E[i]);
  uint32_t hi = (uint32_t) (e >> 24) & 0xffffff, lo = (uint32_t) e & 0xffffff;
  /* expansion bit i+1 is bit (23 - i) of hi; the library's saltbits is the
     bit-reversed salt, i.e. already in this position */
  uint32_t m = 0;
  for (int i = 0; i < 24; i++)
    if ((salt24 >> i) & 1u)
      m |= 1u << (23 - i);
  uint32_t sw = (hi ^ lo) & m;
  hi ^= sw; lo ^= sw;
  e = (((uint64_t) hi << 24) | lo) ^ K;
  uint32_t s = 0;
  for (int b = 0; b < 8; b++)
    {
      unsigned six = (unsigned) (e >> (42 - 6 * b)) & 0x3f;
      unsigned row = ((six >> 4) & 2) | (six & 1), col = (six >> 1) & 0xf;
      s = (s << 4) | DES_S[b][16 * row + col];
    }
  uint32_t p = 0;
  for (int i = 0; i < 32; i++)
    p = (p << 1) | DES_BIT (s, 32, DES_P[i]);
  return p;
}

/* round keys K1..K16 (48 bits each) of a 64-bit key; parity bits are not read */
static inline void spec_des_keys (uint64_t key, uint64_t K[16])
{
  uint64_t cd = 0;
  for (int i = 0; i < 56; i++)
    cd = (cd << 1) | DES_BIT (key, 64, DES_PC1[i]);
  uint32_t c = (uint32_t) (cd >> 28) & 0xfffffff, d = (uint32_t) cd & 0xfffffff;
  for (int r = 0; r < 16; r++)
    {
      for (int s = 0; s < DES_SHIFTS[r]; s++)
        {
          c = ((c << 1) | (c >> 27)) & 0xfffffff;
          d = ((d << 1) | (d >> 27)) & 0xfffffff;
        }
      uint64_t x = ((uint64_t) c << 28) | d, k = 0;
      for (int i = 0; i < 48; i++)
        k = (k << 1) | DES_BIT (x, 56, DES_PC2[i]);
      K[r] = k;
    }
}

/* whole block operation: `count` iterations of the 16 rounds between one IP
   and one FP (crypt(3)'s iterated form; count 1, salt 0 is FIPS DES) */
static inline uint64_t spec_des_block (uint64_t blk, const uint64_t K[16], uint32_t salt24, unsigned count, int decrypt)
{
  uint32_t L, R;
  spec_des_ip (blk, &L, &R);
  for (unsigned c = 0; c < count; c++)
    {
      for (int r = 0; r < 16; r++)
        {
          uint32_t f = spec_des_f (R, K[decrypt ? 15 - r : r], salt24);
          uint32_t nl = R;
          R = L ^ f;
          L = nl;
        }
      uint32_t t = L; L = R; R = t;      /* the halves are exchanged between iterations */
    }
  return spec_des_fp (L, R);
}
#endif

/* Specification of method selection by setting prefix, written from crypt(5)
   ("HASHING METHODS": the prefix column) - not from get_hashfn.  The
   INCLUDE_* macros are the build configuration (crypt-hashes.h, generated
   from hashes.conf by the project's own script for the configuration under
   test): a method that is not enabled is not selectable, exactly like an
   unknown prefix (C19).

   Returns the method id (enum below) or -1.  `len` is strlen (s).  */
#ifndef XV_SPEC_PREFIX_H
#define XV_SPEC_PREFIX_H 1
#include <stdbool.h>
#include <stddef.h>

enum xv_method
{
  M_SHA1CRYPT, M_BCRYPT_A, M_BCRYPT_B, M_BCRYPT_X, M_BCRYPT_Y, M_GOST_YESCRYPT,
  M_SUNMD5, M_MD5CRYPT, M_NT, M_SHA256CRYPT, M_SHA512CRYPT, M_SCRYPT,
  M_YESCRYPT, M_BSDICRYPT, M_BIGCRYPT, M_DESCRYPT, M_COUNT
};

static inline bool spec_has_prefix (const unsigned char *s, size_t len, const char *p, size_t plen)
{
  if (len < plen) return false;
  for (size_t i = 0; i < 5; i++)
    if (i < plen && s[i] != (unsigned char) p[i]) return false;
  return true;
}

static inline bool spec_des_salt_char (unsigned char c)
{
  return c == '.' || c == '/' || (c >= '0' && c <= '9') || (c >= 'A' && c <= 'Z') || (c >= 'a' && c <= 'z');
}

static inline int spec_method_of_prefix (const unsigned char *s, size_t len)
{
#if INCLUDE_yescrypt
  if (spec_has_prefix (s, len, "$y$", 3)) return M_YESCRYPT;
#endif
#if INCLUDE_gost_yescrypt
  if (spec_has_prefix (s, len, "$gy$", 4)) return M_GOST_YESCRYPT;
#endif
#if INCLUDE_scrypt
  if (spec_has_prefix (s, len, "$7$", 3)) return M_SCRYPT;
#endif
#if INCLUDE_bcrypt
  if (spec_has_prefix (s, len, "$2b$", 4)) return M_BCRYPT_B;
#endif
#if INCLUDE_bcrypt_a
  if (spec_has_prefix (s, len, "$2a$", 4)) return M_BCRYPT_A;
#endif
#if INCLUDE_bcrypt_x
  if (spec_has_prefix (s, len, "$2x$", 4)) return M_BCRYPT_X;
#endif
#if INCLUDE_bcrypt_y
  if (spec_has_prefix (s, len, "$2y$", 4)) return M_BCRYPT_Y;
#endif
#if INCLUDE_sha512crypt
  if (spec_has_prefix (s, len, "$6$", 3)) return M_SHA512CRYPT;
#endif
#if INCLUDE_sha256crypt
  if (spec_has_prefix (s, len, "$5$", 3)) return M_SHA256CRYPT;
#endif
#if INCLUDE_sha1crypt
  if (spec_has_prefix (s, len, "$sha1", 5)) return M_SHA1CRYPT;
#endif
#if INCLUDE_sunmd5
  if (spec_has_prefix (s, len, "$md5", 4)) return M_SUNMD5;
#endif
#if INCLUDE_md5crypt
  if (spec_has_prefix (s, len, "$1$", 3)) return M_MD5CRYPT;
#endif
#if INCLUDE_nt
  if (spec_has_prefix (s, len, "$3$", 3)) return M_NT;
#endif
#if INCLUDE_bsdicrypt
  if (spec_has_prefix (s, len, "_", 1)) return M_BSDICRYPT;
#endif
  /* traditional DES and its bigcrypt extension: the empty string (historic:
     selects DES, which then rejects it) or two characters of ./0-9A-Za-z */
#if INCLUDE_bigcrypt || INCLUDE_descrypt
  if (len == 0 || (len >= 2 && spec_des_salt_char (s[0]) && spec_des_salt_char (s[1])))
    {
#if INCLUDE_bigcrypt
      return M_BIGCRYPT;
#else
      return M_DESCRYPT;
#endif
    }
#endif
  return -1;
}

/* crypt(5) / hashes.conf STRONG column: methods acceptable for new hashes */
static inline bool spec_method_is_strong (int m)
{
  return m == M_YESCRYPT || m == M_GOST_YESCRYPT || m == M_SCRYPT || m == M_BCRYPT_B
         || m == M_BCRYPT_Y || m == M_BCRYPT_A || m == M_SHA512CRYPT;
}
#endif

"""C08: frame audit.  No function reachable from the re-entrant entry points
reads or writes a mutable object of static storage duration - the classical
sufficient condition for "distinct calls on distinct objects share nothing".
Decided on the goto binaries of the real library built from the working tree:
call graph with indirect calls over-approximated by signature
(goto-instrument --remove-function-pointers), symbol table, function bodies."""
import glob, json, os, re
from . import core
from .core import ToolError, Obligation

ENTRY = ["crypt_r", "crypt_rn", "crypt_ra", "crypt_gensalt_rn", "crypt_gensalt_ra",
         "crypt_checksalt", "crypt_preferred_method"]
# const-qualified tables are shared read-only; thread-local errno is per thread
NON_TUS = ("gen-des-tables.c", "alg-yescrypt-platform.c")


def library_tus(scr):
    return [p for p in sorted(glob.glob(os.path.join(scr.src, "lib", "*.c")))
            if os.path.basename(p) not in NON_TUS]


def build_all(scr, only_compile=False):
    out = os.path.join(scr.dir, "audit")
    os.makedirs(out, exist_ok=True)
    gb = os.path.join(out, "all.gb")
    cmd = ["goto-cc", "-DHAVE_CONFIG_H", "-DIN_LIBCRYPT", "-I" + scr.src, "-I" + os.path.join(scr.src, "lib")] \
        + library_tus(scr) + ["-o", gb]
    rc, so, se, _, _ = core.run(cmd, cwd=out)
    if rc != 0:
        raise ToolError("library does not build with goto-cc: %s" % (so + se)[-1500:])
    if only_compile:
        return gb
    gb2 = os.path.join(out, "all2.gb")
    rc, so, se, _, _ = core.run(["goto-instrument", "--remove-function-pointers", gb, gb2], cwd=out)
    if rc != 0:
        raise ToolError("remove-function-pointers failed: %s" % se[-800:])
    return gb2


def job(scr, job, res, tier="quick", seed=0):
    gb = build_all(scr)
    rc, so, se, _, _ = core.run(["goto-instrument", "--call-graph", gb])
    edges = {}
    for line in so.splitlines():
        m = re.match(r"^(\S+) -> (\S+)$", line.strip())
        if m:
            edges.setdefault(m.group(1), set()).add(m.group(2))
    if not edges:
        raise ToolError("empty call graph")
    rc, body, se, _, _ = core.run(["goto-instrument", "--show-goto-functions", gb])
    # split bodies per function
    bodies = {}
    cur = None
    for line in body.splitlines():
        m = re.match(r"^(\S+) /\* (\S+) \*/$", line)
        if m:
            cur = m.group(2)
            bodies[cur] = []
            continue
        if cur is not None:
            bodies[cur].append(line)
    # symbol names of the entry points (crypt-port.h renames them with _crypt_ prefixes)
    allf = set(edges) | set(x for v in edges.values() for x in v) | set(bodies)
    roots = []
    for e in ENTRY:
        cands = [f for f in allf if f == e or f == "_crypt_" + e]
        if not cands:
            raise ToolError("entry point %s not found in the call graph" % e)
        roots += cands
    reach = set()
    todo = list(roots)
    while todo:
        f = todo.pop()
        if f in reach:
            continue
        reach.add(f)
        todo += list(edges.get(f, ()))
    rc, so, se, _, _ = core.run(["goto-instrument", "--show-symbol-table", "--json-ui", gb])
    statics = {}
    for ent in json.loads(so, strict=False):
        for k, v in ent.get("symbolTable", {}).items():
            t = v.get("type", {})
            if not v.get("isStaticLifetime") or v.get("isType") or t.get("id") == "code":
                continue
            if k.startswith("__CPROVER") or "$" in k or k in ("__PRETTY_FUNCTION__",) or v.get("isExtern") and False:
                continue
            pt = v.get("prettyType", "")
            # const objects (shared read-only tables).  For pointers the
            # object itself must be const ("T * const"), not its target.
            if "*" in pt:
                const = re.sub(r"\s*\[[0-9a-z]*\]\s*$", "", pt).rstrip().endswith("const")
            else:
                const = pt.startswith("const ")
            if const:
                continue
            # string literals and compiler-internal objects
            if k.endswith("__func__") or re.search(r"string_constant|\.str|__func__|__FUNCTION__", k):
                continue
            statics[k] = v
    res.cmds.append("goto-cc <all library TUs>; goto-instrument --remove-function-pointers; --call-graph; --show-symbol-table; --show-goto-functions")
    n_reach = len(reach)
    for sym in sorted(statics):
        pat = re.compile(r"(?<![A-Za-z0-9_:$])" + re.escape(sym) + r"(?![A-Za-z0-9_$])")
        users = [f for f in reach if pat.search("\n".join(bodies.get(f, ())))]
        # who can modify it: an assignment whose left-hand side starts with the
        # object, or its address being taken (then anything may write through
        # the pointer), in ANY function of the library except the static
        # initialiser
        wpat = re.compile(r"(ASSIGN\s+" + re.escape(sym) + r"(\W[^:]*)?\s*:=)|(&" + re.escape(sym) + r"(?![A-Za-z0-9_$]))"
                          r"|(address_of\(" + re.escape(sym) + r")")
        writers = [f for f, lines in bodies.items()
                   if not f.startswith("__CPROVER") and wpat.search("\n".join(lines))]
        ok = not users or not writers
        res.obligations.append(Obligation(
            job["name"], "frame." + sym,
            "[C08] mutable static object %s: either no function reachable from the re-entrant entry points refers to it, "
            "or no function of the library ever writes it or takes its address (%d reachable functions examined)"
            % (sym, n_reach), "SUCCESS" if ok else "FAILURE",
            {"file": os.path.basename(statics[sym].get("location", {}).get("file", "?")),
             "line": statics[sym].get("location", {}).get("line", 0), "users": users[:5], "writers": writers[:5]}))
    # the seven entry points themselves must be present and have bodies
    for r in roots:
        res.obligations.append(Obligation(job["name"], "entry." + r, "[C08] entry point %s is in the audited closure (%d functions)" % (r, n_reach),
                                          "SUCCESS" if bodies.get(r) else "FAILURE", {"file": "?", "line": 0}))
    res.obligations.append(Obligation(job["name"], "closure.size", "[C08] closure contains the hashing methods (at least 100 functions)",
                                      "SUCCESS" if n_reach >= 100 else "FAILURE", {"file": "?", "line": 0, "n": n_reach}))

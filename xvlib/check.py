"""Per-property verdicts, known findings, evidence."""
import importlib, json, os, re, sys, time, glob

from . import core
from .core import ToolError, log, VERIF, EXIT_OK, EXIT_TOOL, EXIT_VIOLATION

TRUSTED_BASE = [
    "cbmc 6.11.0 (goto-cc, goto-instrument, built-in MiniSat 2 back end)",
    "rewrite rules R1 (crypt.c '? 0 :' cast), R2 (errno as a plain global), R6/R7 (`*const` on three never-assigned static pointers of crypt-pbkdf1-sha1.c and crypt-nthash.c) - DESIGN.md 3.1",
    "goto-instrument's loop-contract pass gives non-const statics a nondeterministic initial value (an over-approximation of the initial state; ghosts are set explicitly by each harness) - DESIGN.md 11.2",
    "libc/OS models in /verif/models (strlen family, strtoul, snprintf, explicit_bzero, malloc/realloc/free, mmap/munmap, arc4random_buf)",
    "contract stubs of callees are generated from the same predicate text that the callee's own enforcement job checks (contracts/*.h)",
    "GNU C semantics for left shift of negative int (A-gnuc); machine integers are bit-vectors, not mathematical",
]


def load_jobs():
    jobs = []
    sys.path.insert(0, VERIF)
    for p in sorted(glob.glob(os.path.join(VERIF, "jobs", "*.py"))):
        name = os.path.basename(p)[:-3]
        if name.startswith("_"):
            continue
        mod = importlib.import_module("jobs." + name)
        for j in getattr(mod, "JOBS", []):
            j.setdefault("unit", name)
            jobs.append(j)
    names = [j["name"] for j in jobs]
    dup = set(n for n in names if names.count(n) > 1)
    if dup:
        raise ToolError("duplicate job names: %s" % sorted(dup))
    return jobs


def load_known():
    """known-findings.txt: 'finding: property=Cxx job=<name> match=<regex> :: text'
    and 'fixed: property=Cxx <commit> <text>' (the latter suppresses nothing)."""
    out = []
    p = os.path.join(VERIF, "known-findings.txt")
    if not os.path.exists(p):
        return out
    for line in open(p):
        line = line.strip()
        m = re.match(r"^finding:\s+property=(\S+)\s+job=(\S+)\s+match=(\S+)\s+::\s+(.*)$", line)
        if m:
            out.append({"property": m.group(1), "job": m.group(2),
                        "match": re.compile(m.group(3)), "text": m.group(4)})
    return out


def relevant(ob, job, pid):
    if ob.kind == "canary":
        return False
    if ob.props is not None:
        return pid in ob.props
    # automatically generated obligations (memory safety, overflow, loop
    # invariants, unwinding assertions, the code's own assert()s)
    return pid in job.get("auto_props", job["props"])


def check_property(pid, tier="quick", only_jobs=None, keep=False, seed=0):
    t0 = time.time()
    jobs_all = load_jobs()
    # jobs marked wip are under construction: runnable with `xv job`, never part of a check
    jobs = [j for j in jobs_all if pid in j["props"] and not j.get("wip")
            and (tier == "thorough" or j.get("tier", "quick") == "quick")]
    if only_jobs:
        jobs = [j for j in jobs if j["name"] in only_jobs]
    if not jobs:
        raise ToolError("no jobs registered for %s" % pid)
    known = [k for k in load_known() if k["property"] == pid]
    core.TIER["tier"] = tier
    scr = core.Scratch(keep=keep)
    log("xv: %s tier=%s jobs=%d scratch=%s" % (pid, tier, len(jobs), scr.dir))
    cb = [j for j in jobs if j.get("kind", "cbmc") == "cbmc"]
    py = [j for j in jobs if j.get("kind") == "py"]
    results = core.run_jobs(scr, cb) if cb else {}
    for j in py:
        t1 = time.time()
        r = core.JobResult(j["name"])
        try:
            j["fn"](scr, j, r, tier=tier, seed=seed)
        except ToolError as e:
            r.error = str(e)
        r.wall_s = time.time() - t1
        results[j["name"]] = r
        log("  job %-34s %6.1fs  %s" % (j["name"], r.wall_s,
                                         "TOOL-ERROR" if r.error else "%d obligations" % len(r.obligations)))

    tool_errors, failures, known_hits = [], [], []
    n_obl = n_dis = n_bounded_obl = n_bounded_dis = 0
    samples, per_job = [], []
    fn_under_contract, assumptions = [], set()
    for j in jobs:
        r = results[j["name"]]
        if r.error:
            tool_errors.append("%s: %s" % (j["name"], r.error))
            continue
        can = [o for o in r.obligations if o.kind == "canary"]
        vac = [o for o in can if o.status != "FAILURE"]
        if vac:
            tool_errors.append("%s: vacuous run, reachability canary not reached: %s"
                               % (j["name"], [o.desc for o in vac][:3]))
            continue
        if len(can) < j.get("min_canaries", 1 if j.get("kind", "cbmc") == "cbmc" else 0):
            tool_errors.append("%s: expected reachability canaries, found %d" % (j["name"], len(can)))
            continue
        # obligations a job exempts (documented tool limitations, each with a
        # reason and the job that covers the fact instead)
        exempt = []
        for ex in j.get("exempt", []):
            rx = re.compile(ex["match"])
            exempt += [o for o in r.obligations if rx.search(o.name) or rx.search(o.desc)]
        exempt_names = set(o.name for o in exempt)
        rel = [o for o in r.obligations if relevant(o, j, pid) and o.name not in exempt_names]
        if len(rel) < j.get("min_obligations", 1):
            tool_errors.append("%s: only %d obligations generated for %s (floor %d)"
                               % (j["name"], len(rel), pid, j.get("min_obligations", 1)))
            continue
        bad = [w for w in r.warnings if "ignoring" in w or w.startswith("ERROR")]
        if bad:
            tool_errors.append("%s: verifier warning: %s" % (j["name"], bad[:2]))
            continue
        ok = [o for o in rel if o.status == "SUCCESS"]
        # UNKNOWN: CBMC could not decide the obligation because it lies behind
        # a failed one; it is neither discharged nor a violation of its own.
        unk = [o for o in rel if o.status == "UNKNOWN"]
        fl = [o for o in rel if o.status not in ("SUCCESS", "UNKNOWN")]
        allfail = [o for o in r.obligations if o.kind != "canary" and o.status == "FAILURE"]
        if unk and not allfail:
            tool_errors.append("%s: %d obligations undecided (UNKNOWN) without a failed obligation in front of them"
                               % (j["name"], len(unk)))
        jf = []
        for o in fl:
            if o.kind == "unwind" and j.get("unreachable_loops") and re.search(j["unreachable_loops"], o.name):
                # this job's contract says these loops are not reached at all
                # for its input class: reaching one is a violation, not a tool limit
                o.desc = "[%s] loop reached: %s" % (",".join(j["props"]), o.desc)
            elif o.kind == "unwind":
                tool_errors.append("%s: %s %s - a loop is covered neither by a contract nor by "
                                   "its recorded constant bound" % (j["name"], o.name, o.desc))
                continue
            kh = [k for k in known if k["job"] == j["name"]
                  and (k["match"].search(o.desc) or k["match"].search(o.name))]
            if kh:
                known_hits.append((kh[0], o))
            else:
                jf.append(o)
        failures += [(j, o) for o in jf]
        nk = len([1 for k, o in known_hits if o.job == j["name"]])
        if j.get("bounded"):
            n_bounded_obl += len(rel)
            n_bounded_dis += len(ok)
        else:
            # obligations listed as known findings are reported separately
            n_obl += len(rel) - nk
            n_dis += len(ok)
        for o in ok[:2]:
            samples.append(o.brief())
        per_job.append({"job": j["name"], "mode": j.get("mode", "E2"),
                        "bounded": bool(j.get("bounded")), "input_domain_bound": j.get("bound"),
                        "cases": len(core.active_cases(j)) if j.get("cases") else None,
                        "cases_of_full_partition": len(j["cases"]) if j.get("cases") else None,
                        "case_subset_note": (j.get("cases_quick_note") if (tier == "quick" and j.get("cases_quick")) else None),
                        "verdicts_reused_from_memo": bool(r.cached),
                        "exempted_obligations": [{"match": ex["match"], "reason": ex["reason"],
                                                  "count": len([o for o in r.obligations if re.search(ex["match"], o.name) or re.search(ex["match"], o.desc)])}
                                                 for ex in j.get("exempt", [])],
                        "functions": j.get("functions", []),
                        "obligations": len(rel), "discharged": len(ok),
                        "canaries_failing_as_required": len(can),
                        "loop_contracts": r.loops_contracted,
                        "loops_unwound_constant_bound": len(r.loops_unwound),
                        "solver_s": round(r.solver_s, 1), "wall_s": round(r.wall_s, 1),
                        "back_end": j.get("back_end", "cbmc 6.11.0 / MiniSat 2 (SAT)"),
                        "cmds": r.cmds[-1:] if r.cmds else []})
        for f in j.get("functions", []):
            if f not in fn_under_contract:
                fn_under_contract.append(f)
        for a in j.get("assumptions", []):
            assumptions.add(a)

    # ---- verdict
    exit_code = EXIT_OK
    out_lines = []
    replays = []
    for k, o in known_hits:
        out_lines.append("KNOWN-FINDING: property=%s %s (obligation %s in job %s)"
                         % (pid, k["text"], o.name, o.job))
    if failures:
        os.makedirs(os.path.join(VERIF, "replays"), exist_ok=True)
        seen = set()
        for j, o in failures:
            key = (j["name"], o.desc)
            if key in seen or len(seen) >= 4:
                continue
            seen.add(key)
            rec = {"property": pid, "obligation": o.name, "description": o.desc,
                   "job": j["name"], "location": o.brief()["location"]}
            if j.get("kind", "cbmc") == "cbmc":
                try:
                    rec.update(core.investigate(scr, j, o))
                except Exception as e:   # replay trouble must not hide the failure
                    rec["replay_error"] = repr(e)
                    rec["reproduced"] = False
            else:
                rec["reproduced"] = bool(getattr(o, "loc", {}) and o.loc.get("reproduced"))
                rec["detail"] = o.loc
            safe = re.sub(r"[^A-Za-z0-9_.-]", "_", "%s-%s-%s" % (pid, j["name"], o.name))
            path = os.path.join(VERIF, "replays", safe + ".json")
            json.dump(rec, open(path, "w"), indent=1, default=str)
            replays.append(path)
            tail = "" if rec.get("reproduced") else " no-failing-input-found"
            out_lines.append("VIOLATION property=%s replay=%s obligation=%s [%s]%s"
                             % (pid, path, o.name, o.desc, tail))
        exit_code = EXIT_VIOLATION
    if tool_errors and exit_code == EXIT_OK:
        exit_code = EXIT_TOOL

    level = PROP_LEVEL.get(pid, "proof")
    ev = {
        "property_id": pid, "tier": tier, "seed": int(seed), "level": level,
        "wall_s": round(time.time() - t0, 1),
        "violations": len(failures),
        "coverage": {
            "obligations": n_obl, "discharged": n_dis,
            "checker_cmd": "bin/xv check %s --tier %s" % (pid, tier),
            "trusted_base": TRUSTED_BASE,
            "functions_under_contract": fn_under_contract,
            "jobs": per_job,
            "bounded_standins": {"obligations": n_bounded_obl, "discharged": n_bounded_dis,
                                 "note": "bounded jobs are not counted in obligations/discharged"},
            "samples": samples[:12],
            "known_findings": [{"text": k["text"], "obligation": o.name, "job": o.job}
                               for k, o in known_hits],
            "tool_errors": tool_errors,
            "rewrite_rules_fired": scr.rules,
            "explanation": PROP_NOTE.get(pid, ""),
        },
        "assumptions": sorted(assumptions),
    }
    os.makedirs(os.path.join(VERIF, "evidence"), exist_ok=True)
    json.dump(ev, open(os.path.join(VERIF, "evidence", pid + ".json"), "w"), indent=1)
    for l in out_lines:
        print(l)
    for e in tool_errors:
        print("TOOL-ERROR: %s" % e)
    print("xv: %s %s: %d/%d obligations discharged in %d jobs, %d known findings, %d violations, %d tool errors, %.0fs"
          % (pid, tier, n_dis, n_obl, len(jobs), len(known_hits),
             len(failures), len(tool_errors), time.time() - t0))
    scr.cleanup()
    return exit_code


PROP_LEVEL = {}
PROP_NOTE = {}


def load_levels():
    p = os.path.join(VERIF, "MANIFEST.json")
    if os.path.exists(p):
        try:
            m = json.load(open(p))
            for c in m.get("checks", []):
                PROP_LEVEL[c["property_id"]] = c["level_claimed"]["category"]
                PROP_NOTE[c["property_id"]] = c["level_claimed"]["text"]
        except ValueError:
            pass

"""C19: the configuration-sensitive contracts re-discharged under a set of
--enable-hashes selections.  For each selection the project's own scripts
regenerate crypt-hashes.h / crypt.h / crypt-symbol-vers.h (as configure and
make would), every library translation unit is compiled with goto-cc ("the
library builds"), and the jobs whose obligations depend on the selection are
run: get_hashfn and the hash table against spec/prefix.h (which reads the same
INCLUDE_* macros: a disabled method is not selectable, exactly like an unknown
prefix), crypt_checksalt, crypt_preferred_method, crypt_gensalt_rn (NULL
prefix = the configuration's default, or EINVAL when there is none).

This is an enumeration of configurations with a proof inside each, not a proof
over all 2^16 selections."""
import os, random, re
from . import core, audit
from .core import ToolError, Obligation, REPO

METHODS = ["yescrypt", "gost_yescrypt", "scrypt", "bcrypt", "bcrypt_y", "bcrypt_a", "bcrypt_x", "sha512crypt",
           "sha256crypt", "sha1crypt", "sunmd5", "md5crypt", "nt", "bsdicrypt", "bigcrypt", "descrypt"]
GROUPS = ["all", "strong", "alt", "freebsd", "glibc", "netbsd", "openbsd", "osx", "owl", "solaris", "suse"]
SUBJOBS = ["get_hashfn", "hash_table", "crypt_checksalt", "crypt_preferred_method", "crypt_gensalt_rn"]


def expand(selection):
    rc, so, se, _, _ = core.run(["perl", os.path.join(REPO, "build-aux", "scripts", "expand-selected-hashes"),
                                 os.path.join(REPO, "lib", "hashes.conf"), selection],
                                env=dict(os.environ, LC_ALL="C"))
    if rc != 0 or not so.strip():
        raise ToolError("expand-selected-hashes %s failed: %s" % (selection, se[-400:]))
    return so.strip()


def selections(tier, seed):
    quick = ["all", "strong", "glibc", "yescrypt", "scrypt", "descrypt", "bigcrypt", "sha512crypt,sha256crypt", "bcrypt_x,nt"]
    if tier == "quick":
        return quick
    sel = list(GROUPS) + list(METHODS)
    sel += ["all," + ",".join("-" + m for m in [x]) if False else ",".join(m for m in METHODS if m != x) for x in METHODS]
    rnd = random.Random(seed)
    for _ in range(24):
        k = rnd.randint(2, 14)
        sel.append(",".join(sorted(rnd.sample(METHODS, k))))
    out = []
    for s in sel:
        if s not in out:
            out.append(s)
    return out


def job(scr, job, res, tier="quick", seed=0):
    from . import check as chk
    alljobs = {j["name"]: j for j in chk.load_jobs()}
    subs = [alljobs[n] for n in SUBJOBS]
    sels = selections(tier, seed)
    for selname in sels:
        enabled = expand(selname)
        scr2 = core.Scratch(hashes=enabled)
        tag = re.sub(r"[^A-Za-z0-9_,+-]", "_", selname)
        try:
            # the library builds in this configuration
            try:
                audit.build_all(scr2, only_compile=True)
                built = "SUCCESS"
                why = ""
            except ToolError as e:
                built, why = "FAILURE", str(e)[-300:]
            res.obligations.append(Obligation(job["name"], "config[%s].builds" % tag,
                                              "[C19] every library translation unit compiles with --enable-hashes=%s %s" % (selname, why),
                                              built, {"file": "lib/*.c", "line": 0}))
            cfg_subs = list(subs)
            # the wrapper shared by $y$ and $7$ exists when either is enabled:
            # sibling guards must neither refuse an enabled method nor admit a disabled one
            if ",yescrypt," in enabled or ",scrypt," in enabled:
                cfg_subs.append(alljobs["yescrypt_wrapper"])
            results = core.run_jobs(scr2, cfg_subs)
            for sj in cfg_subs:
                r = results[sj["name"]]
                if r.error:
                    raise ToolError("config %s: job %s: %s" % (selname, sj["name"], r.error))
                can = [o for o in r.obligations if o.kind == "canary"]
                if can and all(o.status != "FAILURE" for o in can):
                    raise ToolError("config %s: job %s is vacuous (no canary reached)" % (selname, sj["name"]))
                for o in r.obligations:
                    if o.kind == "canary":
                        continue      # reachability differs per configuration; checked above
                    if o.props is not None and "C19" not in o.props and "C18" not in o.props:
                        continue
                    no = Obligation(job["name"], "config[%s].%s.%s" % (tag, sj["name"], o.name), o.desc, o.status, o.loc)
                    if no.props is None:
                        no.props = ["C19"]
                        no.kind = "tagged"
                    elif "C19" not in no.props:
                        no.props = no.props + ["C19"]
                    res.obligations.append(no)
                res.solver_s += r.solver_s
        finally:
            scr2.cleanup()
    res.cmds.append("per selection: project scripts regenerate the headers; goto-cc all TUs; jobs %s" % ", ".join(SUBJOBS))
    res.configs = sels

"""xv core: build, instrument, discharge, classify, replay, evidence.

Everything here works from /repo's *current working tree* on every run; see
DESIGN.md section 3 for the rules and section 4 for the verdict protocol.
"""
import atexit, concurrent.futures, glob, hashlib, json, os, re, shutil
import subprocess, sys, tempfile, threading, time

VERIF = os.path.dirname(os.path.dirname(os.path.abspath(__file__)))
REPO = os.environ.get("XV_REPO", "/repo")
NCPU = int(os.environ.get("XV_NCPU", str(os.cpu_count() or 4)))
MEM_BUDGET_GB = float(os.environ.get("XV_MEM_GB", "44"))

EXIT_OK, EXIT_VIOLATION, EXIT_TOOL = 0, 1, 2


class ToolError(Exception):
    """A failure of the machinery (never a property violation): exit 2."""


def log(*a):
    print(*a, file=sys.stderr, flush=True)


def run(cmd, cwd=None, timeout=None, mem_gb=None, env=None, stdin=None):
    """Run a command, returning (rc, stdout, stderr, seconds, timed_out)."""
    pre = None
    if mem_gb:
        import resource
        lim = int(mem_gb * (1 << 30))

        def pre():
            resource.setrlimit(resource.RLIMIT_AS, (lim, lim))
            # CBMC recurses deeply over long expression chains
            try:
                resource.setrlimit(resource.RLIMIT_STACK, (resource.RLIM_INFINITY, resource.RLIM_INFINITY))
            except (ValueError, OSError):
                pass
    t0 = time.time()
    try:
        p = subprocess.run(cmd, cwd=cwd, timeout=timeout, env=env,
                           stdin=stdin, stdout=subprocess.PIPE,
                           stderr=subprocess.PIPE, preexec_fn=pre)
        return p.returncode, p.stdout.decode("utf-8", "replace"), \
            p.stderr.decode("utf-8", "replace"), time.time() - t0, False
    except subprocess.TimeoutExpired as e:
        out = (e.stdout or b"").decode("utf-8", "replace")
        err = (e.stderr or b"").decode("utf-8", "replace")
        return -1, out, err, time.time() - t0, True


# --------------------------------------------------------------------------
# Scratch tree: a copy of the real sources with the recorded rewrite rules.
# --------------------------------------------------------------------------

class Scratch:
    def __init__(self, keep=False, hashes=None):
        base = os.environ.get("TMPDIR", "/tmp")
        self.dir = tempfile.mkdtemp(prefix="xv-", dir=base)
        self.keep = keep
        atexit.register(self.cleanup)
        self.src = os.path.join(self.dir, "src")
        self.rules = {}
        self.hashes = hashes
        self._prepare()

    def cleanup(self):
        if not self.keep and os.path.isdir(self.dir):
            shutil.rmtree(self.dir, ignore_errors=True)

    def _mkvar(self, name, default):
        mk = os.path.join(REPO, "Makefile")
        if os.path.exists(mk):
            for line in open(mk, errors="replace"):
                m = re.match(r"^%s\s*=\s*(.*)$" % re.escape(name), line)
                if m:
                    return m.group(1).strip()
        return default

    def _prepare(self):
        os.makedirs(self.src)
        lib = os.path.join(self.src, "lib")
        shutil.copytree(os.path.join(REPO, "lib"), lib,
                        ignore=shutil.ignore_patterns("*.o", "*.lo", ".libs",
                                                      ".deps", "gen-des-tables"))
        cfg = os.path.join(REPO, "config.h")
        if not os.path.exists(cfg):
            raise ToolError("/repo/config.h missing: run ./configure in /repo")
        shutil.copy(cfg, self.src)
        scripts = os.path.join(REPO, "build-aux", "scripts")
        env = dict(os.environ, LC_ALL="C")
        hashes_enabled = self.hashes or self._mkvar(
            "hashes_enabled",
            ",bcrypt,bcrypt_a,bcrypt_x,bcrypt_y,bigcrypt,bsdicrypt,descrypt,"
            "gost_yescrypt,md5crypt,nt,scrypt,sha1crypt,sha256crypt,"
            "sha512crypt,sunmd5,yescrypt,")
        self.hashes_enabled = hashes_enabled
        compat = self._mkvar("COMPAT_ABI", "yes")
        if self.hashes and ",descrypt," not in self.hashes:
            compat = "no"      # configure: without descrypt the obsolete APIs are disabled
        symargs = ["SYMVER_MIN=" + self._mkvar("SYMVER_MIN", "GLIBC_2.0"),
                   "SYMVER_FLOOR=" + self._mkvar("SYMVER_FLOOR", "GLIBC_2.2.5"),
                   "COMPAT_ABI=" + compat]
        gens = [
            ("crypt-hashes.h", ["gen-crypt-hashes-h",
                                os.path.join(lib, "hashes.conf"), hashes_enabled]),
            ("crypt.h", ["gen-crypt-h", os.path.join(lib, "crypt.h.in"), cfg,
                         os.path.join(lib, "hashes.conf"), hashes_enabled]),
            ("xcrypt.h", ["gen-crypt-h", os.path.join(lib, "xcrypt.h.in"), cfg]),
            ("crypt-symbol-vers.h", ["gen-crypt-symbol-vers-h",
                                     self._mkvar("APPLY_SYMVERS", "yes")] + symargs
             + [os.path.join(lib, "libcrypt.map.in")]),
            ("libcrypt.map", ["gen-libcrypt-map"] + symargs
             + [os.path.join(lib, "libcrypt.map.in")]),
        ]
        for out, cmd in gens:
            rc, so, se, _, _ = run(["perl", os.path.join(scripts, cmd[0])] + cmd[1:],
                                   env=env, cwd=self.src)
            if rc != 0:
                raise ToolError("generating %s failed: %s" % (out, se[-2000:]))
            open(os.path.join(self.src, out), "w").write(so)
        # R1: CBMC's C front end rejects `cond ? 0 : array`.
        p = os.path.join(lib, "crypt.c")
        txt = open(p).read()
        new, n = re.subn(r"\? 0 : ", "? (char *)0 : ", txt)
        self.rules["R1 crypt.c '? 0 : ' -> '? (char *)0 : '"] = n
        if n != 4:
            raise ToolError("rewrite rule R1 fired %d times, expected 4 "
                            "(crypt.c changed shape; update the rule)" % n)
        open(p, "w").write(new)
        # R6: goto-instrument's loop-contract pass gives every non-const
        # object of static storage duration a nondeterministic initial value.
        # `static const char *magic = "$sha1$";` (a never-assigned pointer to
        # a literal) would lose its initialiser; the rule adds the `const` the
        # declaration could have had.  Semantics-preserving: the variable is
        # not assigned anywhere (the compiler would reject the rewritten text
        # otherwise).
        p = os.path.join(lib, "crypt-pbkdf1-sha1.c")
        if os.path.exists(p):
            txt = open(p).read()
            new, n = re.subn(r"static const char \*magic = ", "static const char *const magic = ", txt)
            self.rules["R6 crypt-pbkdf1-sha1.c 'static const char *magic' -> 'static const char *const magic'"] = n
            if n != 1:
                raise ToolError("rewrite rule R6 fired %d times, expected 1 "
                                "(crypt-pbkdf1-sha1.c changed shape; update the rule)" % n)
            open(p, "w").write(new)

        # R7: the same for crypt-nthash.c's two never-assigned static pointers.
        p = os.path.join(lib, "crypt-nthash.c")
        if os.path.exists(p):
            txt = open(p).read()
            new, n1 = re.subn(r"static const char \*magic = ", "static const char *const magic = ", txt)
            new, n2 = re.subn(r"static const uint8_t \*hexconvtab = ", "static const uint8_t *const hexconvtab = ", new)
            self.rules["R7 crypt-nthash.c 'static const T *magic/hexconvtab' -> '*const'"] = n1 + n2
            if (n1, n2) != (1, 1):
                raise ToolError("rewrite rule R7 fired %d+%d times, expected 1+1 "
                                "(crypt-nthash.c changed shape; update the rule)" % (n1, n2))
            open(p, "w").write(new)

    def tree_hash(self):
        h = hashlib.sha256()
        for root, _, files in sorted(os.walk(self.src)):
            for f in sorted(files):
                h.update(f.encode())
                h.update(open(os.path.join(root, f), "rb").read())
        return h.hexdigest()[:16]


# --------------------------------------------------------------------------
# Job execution
# --------------------------------------------------------------------------

DEFAULT_CHECKS = ["--bounds-check", "--pointer-check", "--pointer-overflow-check",
                  "--div-by-zero-check", "--undefined-shift-check",
                  "--signed-overflow-check", "--pointer-primitive-check"]

TAG_RE = re.compile(r"^(STUBPRE)?\[([A-Z0-9, ]+)\]\s*(.*)$")


class Obligation:
    __slots__ = ("name", "desc", "status", "loc", "kind", "props", "job", "case")

    def __init__(self, job, name, desc, status, loc):
        self.job, self.name, self.desc, self.status, self.loc = job, name, desc, status, loc
        self.kind = "auto"
        self.props = None
        self.case = None
        if desc.startswith("CANARY"):
            self.kind = "canary"
        else:
            m = TAG_RE.match(desc)
            if m:
                self.kind = "stubpre" if m.group(1) else "tagged"
                self.props = [x.strip() for x in m.group(2).split(",")]
            elif "unwinding assertion" in desc or name.endswith(".unwind") or ".unwind." in name:
                self.kind = "unwind"
            elif "recursion" in name:
                self.kind = "unwind"

    def brief(self):
        return {"job": self.job, "obligation": self.name, "description": self.desc,
                "status": self.status,
                "location": "%s:%s" % (self.loc.get("file", "?"), self.loc.get("line", "?"))
                if self.loc else None}


class JobResult:
    def __init__(self, job):
        self.job = job
        self.obligations = []
        self.error = None          # ToolError text
        self.solver_s = 0.0
        self.wall_s = 0.0
        self.cmds = []
        self.warnings = []
        self.loops_contracted = []
        self.loops_unwound = []
        self.binary = None
        self.workdir = None
        self.peak = None
        self.cached = False


def _cc_base(scr, extra_defs=()):
    return ["goto-cc", "-DHAVE_CONFIG_H", "-DIN_LIBCRYPT", "-DXV_CBMC=1",
            "-I" + scr.src, "-I" + os.path.join(scr.src, "lib"),
            "-I" + os.path.join(VERIF, "include"), "-I" + VERIF,
            "-include", os.path.join(VERIF, "include", "xv_prelude.h")] + list(extra_defs)


def _must(rc, what, so, se):
    if rc != 0:
        raise ToolError("%s failed (rc=%s):\n%s\n%s" % (what, rc, so[-3000:], se[-3000:]))


def parse_show_loops(text):
    loops = []
    cur = None
    for line in text.splitlines():
        m = re.match(r"^Loop (\S+)\.(\d+):", line)
        if m:
            cur = {"function": m.group(1), "id": int(m.group(2))}
            loops.append(cur)
            continue
        m = re.match(r"^\s+file (\S+) line (\d+) function (\S+)", line)
        if m and cur is not None:
            cur["file"], cur["line"] = m.group(1), int(m.group(2))
    return loops


def _srcline(path, line, span=0):
    try:
        lines = open(path, errors="replace").read().splitlines()
        lo = max(0, line - 1 - span)
        return "\n".join(lines[lo:line + span])
    except OSError:
        return ""


DEFAULT_BOUNDS = {"PCTS": 384}   # named loop bounds of /verif's models when a job does not override them
_LOOP_SEEN = {}
_LOOP_ORD = None
LOOP_ORD_FILE = os.path.join(VERIF, "spec", "loop_ordinals.json")


def _loop_ordinals():
    """recorded position of every contracted loop on the unchanged tree
    (spec/loop_ordinals.json, written by `XV_RECORD_LOOPS=1 xv ...`)"""
    global _LOOP_ORD
    if _LOOP_ORD is None:
        try:
            _LOOP_ORD = json.load(open(LOOP_ORD_FILE))
        except (OSError, ValueError):
            _LOOP_ORD = {}
    return _LOOP_ORD


def record_loop_ordinals():
    if not os.environ.get("XV_RECORD_LOOPS") or not _LOOP_SEEN:
        return
    cur = dict(_loop_ordinals())
    cur.update(_LOOP_SEEN)
    json.dump(cur, open(LOOP_ORD_FILE, "w"), indent=1, sort_keys=True)


def build_loop_contracts(job, loops, symtab_text):
    """Match declared loop contracts to loops of the freshly compiled binary
    (by function and by an anchor text on the loop's source line) and resolve
    the identifiers they mention through the symbol table."""
    want = job.get("loops", [])
    if not want:
        return None, []
    syms = re.findall(r"^Symbol\.+: (\S+)$", symtab_text, re.M)
    byfunc = {}
    used = []
    for lc in want:
        fn = lc["function"]
        cands = [l for l in loops if l["function"] == fn]
        hit = [l for l in cands
               if lc["anchor"] in _srcline(l.get("file", ""), l.get("line", 0), lc.get("span", 1))]
        if "nth" in lc and hit:
            hit = [hit[lc["nth"]]] if lc["nth"] < len(hit) else []
        key = "%s|%s|%s|%d" % (job["name"].split("#")[0], fn, lc["anchor"], lc.get("nth", 0))
        rec = _loop_ordinals().get(key)
        ord_hit = [l for l in cands if rec and rec[1] == len(cands) and l["id"] == rec[0]]
        if len(hit) == 1 and (not ord_hit or ord_hit[0]["id"] == hit[0]["id"]):
            _LOOP_SEEN[key] = [hit[0]["id"], len(cands)]
        elif ord_hit and (len(hit) != 1 or lc["anchor"] in _srcline(ord_hit[0].get("file", ""), ord_hit[0].get("line", 0), lc.get("span", 1))
                          or "nth" in lc):
            # a loop header line was edited (its condition, say): the anchor
            # text no longer matches (or, for one of several loops with the
            # same header, now selects a different one), but the function
            # still has the same number of loops - take the loop at the
            # position recorded on the unchanged tree, so that the edit is
            # judged by the contract instead of stopping the job
            hit = ord_hit
        if len(hit) != 1:
            raise ToolError("loop contract for %s anchored at %r matches %d loops "
                            "(contract file out of date with the source)"
                            % (fn, lc["anchor"], len(hit)))
        loop = hit[0]
        text = " ".join([lc.get("invariant", ""), lc.get("decreases", ""), lc.get("assigns", "")])
        idents = set(re.findall(r"[A-Za-z_][A-Za-z_0-9]*", text))
        smap = []
        for ident in sorted(idents):
            if ident in lc.get("symbols", {}):
                smap.append("%s,%s" % (ident, lc["symbols"][ident]))
                continue
            local = [s for s in syms if s.startswith(fn + "::") and s.endswith("::" + ident)
                     and "$" not in s]
            if len(local) == 1:
                smap.append("%s,%s" % (ident, local[0]))
            elif len(local) > 1:
                # prefer the outermost scope; ambiguous names must be pinned
                local.sort(key=lambda s: (s.count("::"), s))
                smap.append("%s,%s" % (ident, local[0]))
        ent = {"loop_id": str(loop["id"]), "invariants": lc["invariant"],
               "symbol_map": ";".join(smap)}
        if lc.get("decreases"):
            ent["decreases"] = lc["decreases"]
        if lc.get("assigns"):
            ent["assigns"] = lc["assigns"]
        byfunc.setdefault(fn, []).append(ent)
        used.append({"function": fn, "loop_id": loop["id"], "line": loop.get("line"),
                     "invariant": lc["invariant"], "decreases": lc.get("decreases", "")})
    doc = {"functions": [{fn: ents} for fn, ents in byfunc.items()]}
    return doc, used


def run_job(scr, job, small=False, trace_prop=None, timeout=None):
    """Compile, instrument and discharge one job.  Returns JobResult."""
    res = JobResult(job["name"])
    t_start = time.time()
    wd = os.path.join(scr.dir, "jobs", job["name"] + ("-small" if small else "")
                      + ("-trace" if trace_prop else ""))
    os.makedirs(wd, exist_ok=True)
    res.workdir = wd
    try:
        defs = ["-D" + d for d in job.get("defs", [])]
        if small:
            defs.append("-DXV_SMALL=1")
        entry = job.get("entry", "harness")
        cc = _cc_base(scr, defs)
        srcs = [os.path.join(VERIF, job["harness"])]
        srcs += [os.path.join(VERIF, s) for s in job.get("verif_src", [])]
        real = [os.path.join(scr.src, s) for s in job.get("repo_src", [])]
        a_gb = os.path.join(wd, "a.gb")
        export = ["--export-file-local-symbols"] if job.get("export_statics") else []
        if job.get("remove_bodies"):
            r_gb = os.path.join(wd, "real.gb")
            cmd = cc + export + real + ["-o", r_gb]
            rc, so, se, _, _ = run(cmd, cwd=wd)
            _must(rc, "goto-cc(real)", so, se)
            r2 = os.path.join(wd, "real2.gb")
            cmd = ["goto-instrument"]
            for f in job["remove_bodies"]:
                cmd += ["--remove-function-body", f]
            cmd += [r_gb, r2]
            rc, so, se, _, _ = run(cmd, cwd=wd)
            _must(rc, "goto-instrument --remove-function-body", so, se)
            cmd = cc + export + ["--function", entry] + srcs + [r2, "-o", a_gb]
        else:
            cmd = cc + export + ["--function", entry] + srcs + real + ["-o", a_gb]
        res.cmds.append(" ".join(cmd))
        rc, so, se, _, _ = run(cmd, cwd=wd)
        _must(rc, "goto-cc", so, se)
        cur = a_gb
        # callees (static, same translation unit) that this job verifies the
        # caller against by contract: calls are redirected to the contract
        # stub the harness defines (goto-instrument --replace-calls)
        if job.get("replace_calls"):
            r0 = os.path.join(wd, "a0.gb")
            cmd = ["goto-instrument"]
            for pair in job["replace_calls"]:
                cmd += ["--replace-calls", pair]
            cmd += [cur, r0]
            res.cmds.append(" ".join(cmd))
            rc, so, se, _, _ = run(cmd, cwd=wd)
            _must(rc, "goto-instrument --replace-calls", so, se)
            cur = r0
        # callees inside the same translation unit that this job verifies the
        # caller against by contract: drop the real body, link the contract stub
        if job.get("restub"):
            r1 = os.path.join(wd, "a1.gb")
            cmd = ["goto-instrument"]
            for f in job["restub"]["remove"]:
                cmd += ["--remove-function-body", f]
            cmd += [cur, r1]
            rc, so, se, _, _ = run(cmd, cwd=wd)
            _must(rc, "goto-instrument --remove-function-body", so, se)
            r2 = os.path.join(wd, "a2.gb")
            cmd = cc + ["--function", entry, r1] + \
                [os.path.join(VERIF, x) for x in job["restub"]["src"]] + ["-o", r2]
            rc, so, se, _, _ = run(cmd, cwd=wd)
            _must(rc, "goto-cc (contract stubs)", so, se)
            cur = r2

        # constant-bound loops nested inside contracted loops are unwound
        # completely first (with unwinding assertions, so the bound is
        # checked): the installed goto-instrument crashes on nested loop
        # contracts (instrument_spec_assigns: source_location.is_not_nil)
        if job.get("pre_unwind"):
            rc, so, se, _, _ = run(["goto-instrument", "--show-loops", cur], cwd=wd)
            _must(rc, "show-loops(pre-unwind)", so, se)
            uw = []
            for pu in job["pre_unwind"]:
                hit = [l for l in parse_show_loops(so) if l["function"] == pu["function"]
                       and pu["anchor"] in _srcline(l.get("file", ""), l.get("line", 0), 1)]
                if len(hit) != 1:
                    raise ToolError("pre-unwind loop in %s anchored at %r matches %d loops"
                                    % (pu["function"], pu["anchor"], len(hit)))
                uw.append("%s.%d:%d" % (pu["function"], hit[0]["id"], pu["n"] + 1))
            p_gb = os.path.join(wd, "p.gb")
            cmd = ["goto-instrument", "--unwindset", ",".join(uw), "--unwinding-assertions", cur, p_gb]
            res.cmds.append(" ".join(cmd))
            rc, so, se, _, _ = run(cmd, cwd=wd)
            _must(rc, "goto-instrument --unwindset (pre-unwind)", so, se)
            cur = p_gb
        # loop contracts
        rc, so, se, _, _ = run(["goto-instrument", "--show-loops", cur], cwd=wd)
        _must(rc, "show-loops", so, se)
        loops = parse_show_loops(so)
        dfcc = job.get("dfcc")
        if job.get("loops") or dfcc:
            rc, sym, se, _, _ = run(["goto-instrument", "--show-symbol-table", cur], cwd=wd)
            _must(rc, "show-symbol-table", sym, se)
            doc, used = build_loop_contracts(job, loops, sym)
            res.loops_contracted = used
            record_loop_ordinals()
            if os.environ.get("XV_LOOPS_ONLY"):
                raise ToolError("loops-only run (XV_LOOPS_ONLY): contracts matched, nothing discharged")
            b_gb = os.path.join(wd, "b.gb")
            cmd = ["goto-instrument"]
            if dfcc:
                cmd += ["--dfcc", entry]
                for f in dfcc.get("enforce", []):
                    cmd += ["--enforce-contract", f]
                for f in dfcc.get("replace", []):
                    cmd += ["--replace-call-with-contract", f]
            if doc:
                lcf = os.path.join(wd, "loops.json")
                json.dump(doc, open(lcf, "w"), indent=1)
                cmd += ["--loop-contracts-file", lcf]
            if doc or (dfcc and dfcc.get("apply_loop_contracts")):
                cmd += ["--apply-loop-contracts"]
            cmd += [cur, b_gb]
            res.cmds.append(" ".join(cmd))
            rc, so, se, _, _ = run(cmd, cwd=wd, timeout=600)
            _must(rc, "goto-instrument (contracts)", so, se)
            cur = b_gb
        # late-linked models (variadic functions must be linked after the
        # loop-contract pass, which inlines and breaks va_list)
        if job.get("late_src"):
            c_gb = os.path.join(wd, "c.gb")
            cmd = cc + ["--function", entry] + [cur] + \
                [os.path.join(VERIF, s) for s in job["late_src"]] + ["-o", c_gb]
            rc, so, se, _, _ = run(cmd, cwd=wd)
            _must(rc, "goto-cc(late link)", so, se)
            cur = c_gb
        # Drop functions unreachable from the harness: their obligations would be
        # vacuously "discharged" and inflate the counts.
        d_gb = os.path.join(wd, "d.gb")
        rc, so, se, _, _ = run(["goto-instrument", "--drop-unused-functions", cur, d_gb], cwd=wd)
        _must(rc, "goto-instrument --drop-unused-functions", so, se)
        cur = d_gb
        res.binary = cur

        # remaining loops must be covered by a declared constant bound
        rc, so, se, _, _ = run(["goto-instrument", "--show-loops", cur], cwd=wd)
        _must(rc, "show-loops(final)", so, se)
        remaining = parse_show_loops(so)
        res.loops_unwound = [{"function": l["function"], "loop_id": l["id"],
                              "line": l.get("line")} for l in remaining
                             if not l["function"].startswith("__CPROVER")]

        flags = list(job.get("checks", DEFAULT_CHECKS)) + list(job.get("cbmc_flags", []))
        unwind = job.get("unwind", 1)
        base = ["cbmc", cur, "--function", entry,
                "--unwind", str(unwind), "--unwinding-assertions"] + flags
        uws = []
        for l in remaining:
            # trace-window loops of the harness helper layer (XV_WIN iterations)
            line = _srcline(l.get("file", ""), l.get("line", 0))
            if "XV_IN_BYTES" in line or "XV_WINDOW" in line:
                uws.append("%s.%d:%d" % (l["function"], l["id"], job.get("win", 96) + 2))
                continue
            # a loop of /verif's own code may state its constant bound on its line
            m = re.search(r"XV_UNWIND[ (]+([A-Za-z0-9_]+)", line)
            if m:
                n = m.group(1)
                n = int(n) if n.isdigit() else int(job.get("bounds", {}).get(n, DEFAULT_BOUNDS.get(n, 0)))
                if n:
                    uws.append("%s.%d:%d" % (l["function"], l["id"], n + 2))
                    continue
            for pat, n in job.get("unwind_by_func", {}).items():
                if re.search(pat, l["function"]):
                    uws.append("%s.%d:%d" % (l["function"], l["id"], n))
                    break
        uws += job.get("unwindset", [])
        if uws:
            base += ["--unwindset", ",".join(uws)]
        if job.get("object_bits"):
            base += ["--object-bits", str(job["object_bits"])]
        to = timeout or job.get("timeout", 900)
        memlim = job.get("mem_gb", 8) * 1.5 + 2
        if trace_prop:
            # single obligation with counterexample: JSON output
            cmd = base + ["--json-ui", "--trace", "--property", trace_prop]
            res.cmds.append(" ".join(cmd))
            rc, so, se, secs, timed_out = run(cmd, cwd=wd, timeout=to, mem_gb=memlim)
            res.solver_s = secs
            open(os.path.join(wd, "cbmc.json"), "w").write(so)
            if timed_out:
                raise ToolError("cbmc timed out after %ds" % to)
            try:
                doc = json.loads(so)
            except ValueError:
                raise ToolError("cbmc produced no JSON (rc=%s): %s %s" % (rc, so[-800:], se[-800:]))
            for ent in doc:
                if "result" in ent:
                    for r in ent["result"]:
                        ob = Obligation(job["name"], r["property"], r.get("description", ""),
                                        r["status"], r.get("sourceLocation", {}))
                        if "trace" in r:
                            ob.loc = dict(ob.loc or {})
                            ob.loc["trace"] = r["trace"]
                        res.obligations.append(ob)
        else:
            # Obligation metadata from --show-properties (no solving), verdicts
            # from the plain-text run: --json-ui builds a counterexample trace
            # for every failing obligation, including the reachability
            # canaries, which costs several times the solving time.
            rc, so, se, _, _ = run(base + ["--show-properties", "--json-ui"], cwd=wd, timeout=300)
            meta = {}
            try:
                for ent in json.loads(so):
                    for pr in ent.get("properties", []):
                        meta[pr["name"]] = pr
            except ValueError:
                raise ToolError("cbmc --show-properties failed: %s %s" % (so[-500:], se[-500:]))
            cmd = base
            res.cmds.append(" ".join(cmd))
            rc, so, se, secs, timed_out = run(cmd, cwd=wd, timeout=to, mem_gb=memlim)
            res.solver_s = secs
            open(os.path.join(wd, "cbmc.txt"), "w").write(so + "\n--- stderr ---\n" + se)
            if timed_out:
                raise ToolError("cbmc timed out after %ds" % to)
            got = False
            for line in so.splitlines():
                m = re.match(r"^\[([^\]]+)\] .*: (SUCCESS|FAILURE|UNKNOWN|ERROR)$", line)
                if m:
                    got = True
                    pr = meta.get(m.group(1), {})
                    res.obligations.append(Obligation(job["name"], m.group(1),
                                                      pr.get("description", line), m.group(2),
                                                      pr.get("sourceLocation", {})))
                elif "ignoring" in line or "no body for function" in line:
                    res.warnings.append(line.strip())
            for line in se.splitlines():
                if "ignoring" in line or "no body for function" in line:
                    res.warnings.append(line.strip())
            if not got or rc not in (0, 10):
                raise ToolError("cbmc gave no verdicts (rc=%s, out of memory or internal error): %s | %s"
                                % (rc, so[-600:], se[-600:]))
            missing = set(meta) - set(o.name for o in res.obligations)
            if missing:
                raise ToolError("cbmc reported no verdict for %d obligations, e.g. %s"
                                % (len(missing), sorted(missing)[:3]))
        nobody = [w for w in res.warnings if "no body for function" in w
                  and not any(ok in w for ok in job.get("allow_no_body", []))]
        if nobody:
            raise ToolError("unmodelled function(s): %s" % nobody[:5])
    except ToolError as e:
        res.error = str(e)
    res.wall_s = time.time() - t_start
    return res


# --------------------------------------------------------------------------
# Result memo: the verdicts of a job are a function of the sources it was built
# from (the scratch copy of /repo's working tree, /verif's own files) and of
# the job description.  Every run rebuilds the scratch tree from /repo; when
# the same property-independent job was already discharged for byte-identical
# inputs (typically by the check of another property minutes earlier) its
# verdicts are reused.  XV_NO_CACHE=1 disables this.
# --------------------------------------------------------------------------

_vhash = None


def verif_hash():
    global _vhash
    if _vhash is None:
        h = hashlib.sha256()
        for sub in ("include", "models", "contracts", "harness", "spec", "jobs", "xvlib", "replay"):
            for root, _, files in sorted(os.walk(os.path.join(VERIF, sub))):
                for f in sorted(files):
                    if f.endswith((".pyc",)):
                        continue
                    h.update(f.encode())
                    h.update(open(os.path.join(root, f), "rb").read())
        rc, so, _, _, _ = run(["cbmc", "--version"])
        h.update(so.encode())
        _vhash = h.hexdigest()
    return _vhash


def cache_path(scr, job, small):
    if os.environ.get("XV_NO_CACHE"):
        return None
    if not hasattr(scr, "_thash"):
        scr._thash = scr.tree_hash()
    desc = json.dumps({k: v for k, v in job.items() if k not in ("fn",)}, sort_keys=True, default=str)
    key = hashlib.sha256((scr._thash + verif_hash() + desc + str(small)).encode()).hexdigest()[:32]
    d = os.path.join(VERIF, ".cache")
    os.makedirs(d, exist_ok=True)
    return os.path.join(d, key + ".json")


def cache_load(path, job):
    try:
        doc = json.load(open(path))
    except (OSError, ValueError):
        return None
    res = JobResult(job["name"])
    res.solver_s, res.wall_s = doc["solver_s"], doc["wall_s"]
    res.cmds, res.warnings = doc["cmds"], doc["warnings"]
    res.loops_contracted, res.loops_unwound = doc["loops_contracted"], doc["loops_unwound"]
    res.cached = True
    for o in doc["obligations"]:
        res.obligations.append(Obligation(job["name"], o["name"], o["desc"], o["status"], o["loc"]))
    return res


def cache_store(path, res):
    if res.error:
        return
    doc = {"solver_s": res.solver_s, "wall_s": res.wall_s, "cmds": res.cmds, "warnings": res.warnings,
           "loops_contracted": res.loops_contracted, "loops_unwound": res.loops_unwound,
           "obligations": [{"name": o.name, "desc": o.desc, "status": o.status,
                            "loc": {k: v for k, v in (o.loc or {}).items() if k in ("file", "line", "function")}}
                           for o in res.obligations]}
    tmp = path + ".tmp%d" % os.getpid()
    json.dump(doc, open(tmp, "w"))
    os.replace(tmp, path)


# --------------------------------------------------------------------------
# Scheduling
# --------------------------------------------------------------------------

TIER = {"tier": "quick"}


def active_cases(job):
    """All cases in the thorough tier; the job's declared quick subset (if
    any) in the quick tier - the evidence then records the reduced domain."""
    if TIER["tier"] == "quick" and job.get("cases_quick"):
        keep = set(job["cases_quick"])
        return [c for c in job["cases"] if c[0] in keep]
    return job["cases"]


def expand_cases(job):
    """A job may partition its input space into exhaustive cases
    (job["cases"] = [(label, C-condition), ...]; the harness assumes
    XV_CASE_COND).  Each case is compiled and discharged separately; an
    obligation counts as discharged only if it is discharged in every case,
    and a reachability canary must be reached in at least one."""
    if not job.get("cases"):
        return [job]
    subs = []
    for case in active_cases(job):
        label, cond = case[0], case[1]
        sj = dict(job)
        sj["name"] = "%s#%s" % (job["name"], label)
        sj["defs"] = list(job.get("defs", [])) + (["XV_CASE_COND=(%s)" % cond] if cond else []) \
            + (list(case[2]) if len(case) > 2 else [])
        sj["_parent"] = job["name"]
        sj.pop("cases")
        subs.append(sj)
    return subs


def merge_cases(job, subresults):
    res = JobResult(job["name"])
    merged = {}
    order = []
    for sr in subresults:
        res.solver_s += sr.solver_s
        res.cached = res.cached or sr.cached
        res.wall_s = max(res.wall_s, sr.wall_s)
        res.cmds = sr.cmds or res.cmds
        res.warnings += sr.warnings
        res.loops_contracted = sr.loops_contracted or res.loops_contracted
        res.loops_unwound = sr.loops_unwound or res.loops_unwound
        res.workdir = sr.workdir
        if sr.error:
            res.error = "%s: %s" % (sr.job, sr.error)
            continue
        for o in sr.obligations:
            key = (o.name, o.desc)
            if key not in merged:
                no = Obligation(job["name"], o.name, o.desc, o.status, o.loc)
                no.case = sr.job if o.status != "SUCCESS" else None
                merged[key] = no
                order.append(key)
            else:
                m = merged[key]
                if o.status != "SUCCESS" and m.status == "SUCCESS":
                    m.status = o.status
                    m.case = sr.job
                elif o.status not in ("SUCCESS", "FAILURE"):
                    m.status = o.status
    res.obligations = [merged[k] for k in order]
    return res


def run_jobs(scr, jobs, small=False):
    """Run jobs in parallel under a memory budget."""
    results = {}
    lock = threading.Condition()
    state = {"mem": 0.0, "running": 0}
    parents = {j["name"]: j for j in jobs}
    expanded = []
    for j in jobs:
        expanded += expand_cases(j)
    jobs = expanded
    order = sorted(jobs, key=lambda j: -j.get("mem_gb", 2))

    def worker(job):
        need = min(job.get("mem_gb", 2), MEM_BUDGET_GB)
        with lock:
            while state["mem"] + need > MEM_BUDGET_GB or state["running"] >= NCPU:
                lock.wait()
            state["mem"] += need
            state["running"] += 1
        try:
            cp = cache_path(scr, job, small)
            r = cache_load(cp, job) if cp else None
            if r is None:
                r = run_job(scr, job, small=small)
                if cp:
                    cache_store(cp, r)
        finally:
            with lock:
                state["mem"] -= need
                state["running"] -= 1
                lock.notify_all()
        if not job.get("_parent") or r.error:
            log("  job %-34s %6.1fs  %s" % (job["name"], r.wall_s,
                                             "TOOL-ERROR" if r.error else
                                             "%d obligations" % len(r.obligations)))
        return r

    with concurrent.futures.ThreadPoolExecutor(max_workers=max(NCPU, 2)) as ex:
        futs = {ex.submit(worker, j): j for j in order}
        for f in concurrent.futures.as_completed(futs):
            results[futs[f]["name"]] = f.result()
    final = {}
    for name, pj in parents.items():
        if pj.get("cases"):
            subs = [results["%s#%s" % (name, c[0])] for c in active_cases(pj)]
            final[name] = merge_cases(pj, subs)
        else:
            final[name] = results[name]
    return final


# --------------------------------------------------------------------------
# Counterexample extraction and native replay
# --------------------------------------------------------------------------

def extract_inputs(trace):
    """Last assignment to every in_* scalar and inw_* window of the trace."""
    scal, wins = {}, {}
    for st in trace:
        if st.get("stepType") != "assignment":
            continue
        lhs = st.get("lhs", "")
        val = st.get("value", {})
        m = re.match(r"^in_([A-Za-z0-9_]+)$", lhs)
        if m and "binary" in val:
            b = val["binary"]
            scal[m.group(1)] = int(b, 2) if re.fullmatch(r"[01]+", b or "") else 0
            continue
        m = re.match(r"^inw_([A-Za-z0-9_]+)\[(\d+)l?\]$", lhs)
        if m and "binary" in val:
            wins.setdefault(m.group(1), {})[int(m.group(2))] = int(val["binary"], 2)
    return scal, wins


_native_lock = threading.Lock()


def build_native_lib(scr):
    """Compile the real library natively (ASan+UBSan) from the working tree."""
    with _native_lock:
        out = os.path.join(scr.dir, "native")
        ar = os.path.join(out, "libreal.a")
        if os.path.exists(ar):
            return ar
        os.makedirs(out, exist_ok=True)
        lib = os.path.join(REPO, "lib")
        srcs = sorted(glob.glob(os.path.join(lib, "*.c")))
        # not translation units of the library: a build-time generator and a
        # file that alg-yescrypt-opt.c #includes
        srcs = [s for s in srcs if os.path.basename(s) not in
                ("gen-des-tables.c", "alg-yescrypt-platform.c")]
        procs = []
        for s in srcs:
            o = os.path.join(out, os.path.basename(s)[:-2] + ".o")
            procs.append((s, subprocess.Popen(
                ["gcc", "-c", "-g", "-O1", "-fsanitize=address,undefined",
                 "-fno-sanitize-recover=undefined", "-fno-sanitize=shift-base",
                 "-DHAVE_CONFIG_H", "-DIN_LIBCRYPT",
                 "-I" + scr.src, "-I" + lib, s, "-o", o],
                stdout=subprocess.PIPE, stderr=subprocess.PIPE)))
        objs = []
        for s, p in procs:
            so, se = p.communicate()
            if p.returncode != 0:
                raise ToolError("native build of %s failed: %s" % (s, se.decode()[-1500:]))
            objs.append(os.path.join(out, os.path.basename(s)[:-2] + ".o"))
        rc, so, se, _, _ = run(["ar", "rcs", ar] + objs)
        _must(rc, "ar", so, se)
        return ar


def native_replay(scr, job, scal, wins, tag):
    """Run the harness natively on the extracted inputs against the real code."""
    ar = build_native_lib(scr)
    wd = os.path.join(scr.dir, "replay-" + job["name"] + "-" + tag)
    os.makedirs(wd, exist_ok=True)
    inp = os.path.join(wd, "inputs.txt")
    with open(inp, "w") as f:
        for k, v in sorted(scal.items()):
            f.write("%s %d\n" % (k, v))
        for k, w in sorted(wins.items()):
            n = max(w) + 1 if w else 0
            f.write("%s[] %s\n" % (k, "".join("%02x" % w.get(i, 0) for i in range(n))))
    exe = os.path.join(wd, "replay")
    entry = job.get("entry", "harness")
    lib = os.path.join(REPO, "lib")
    cmd = ["gcc", "-g", "-O1", "-fsanitize=address,undefined",
           "-fno-sanitize-recover=undefined", "-fno-sanitize=shift-base",
           "-DXV_NATIVE=1", "-DXV_ENTRY=" + entry, "-DHAVE_CONFIG_H", "-DIN_LIBCRYPT",
           "-I" + scr.src, "-I" + lib, "-I" + os.path.join(VERIF, "include"), "-I" + VERIF,
           "-Wno-implicit-function-declaration"] + \
        ["-D" + d for d in job.get("defs", [])] + \
        [os.path.join(VERIF, job["harness"]), os.path.join(VERIF, "replay", "xv_native.c")] + \
        [os.path.join(VERIF, s) for s in job.get("native_src", [])] + \
        [ar, "-o", exe]
    rc, so, se, _, _ = run(cmd, cwd=wd)
    if rc != 0:
        return {"built": False, "reproduced": False, "output": (so + se)[-3000:], "inputs_file": inp}
    env = dict(os.environ, XV_REPLAY_INPUTS=inp,
               ASAN_OPTIONS="detect_leaks=0:abort_on_error=0", UBSAN_OPTIONS="print_stacktrace=1")
    rc, so, se, _, to = run([exe], cwd=wd, env=env, timeout=120)
    out = (so + "\n" + se)[-6000:]
    reproduced = (rc not in (0, 77)) and not to
    return {"built": True, "reproduced": reproduced, "exit": rc, "output": out,
            "inputs": {"scalars": scal,
                       "buffers": {k: "".join("%02x" % w.get(i, 0) for i in range(max(w) + 1 if w else 0))
                                   for k, w in wins.items()}}}


def investigate(scr, job, ob):
    """Counterexample for one failed obligation, replayed against the real
    code.  Returns the replay record (dict)."""
    rec = {"job": job["name"], "obligation": ob.name, "description": ob.desc,
           "location": ob.brief()["location"], "attempts": []}
    if job.get("cases") and getattr(ob, "case", None):
        sub = [sj for sj in expand_cases(job) if sj["name"] == ob.case]
        if sub:
            job = sub[0]
            rec["case"] = ob.case
    for small in (True, False):
        r = run_job(scr, job, small=small, trace_prop=ob.name,
                    timeout=job.get("timeout", 900))
        att = {"mode": "small-inputs" if small else "full", "tool_error": r.error}
        hit = [o for o in r.obligations if o.name == ob.name]
        if r.error or not hit:
            # obligation names can shift between builds; fall back to description
            hit = [o for o in r.obligations if o.desc == ob.desc and o.status == "FAILURE"]
        if hit and hit[0].status == "FAILURE" and hit[0].loc and "trace" in hit[0].loc:
            scal, wins = extract_inputs(hit[0].loc["trace"])
            att["verifier_inputs"] = {"scalars": scal, "buffers": {
                k: "".join("%02x" % w.get(i, 0) for i in range(max(w) + 1 if w else 0))
                for k, w in wins.items()}}
            if not job.get("no_native"):
                nr = native_replay(scr, job, scal, wins, "s" if small else "f")
                att["native"] = nr
                rec["attempts"].append(att)
                if nr.get("reproduced"):
                    rec["reproduced"] = True
                    return rec
                continue
        else:
            att["note"] = "obligation does not fail in this mode" if not r.error else "tool error"
        rec["attempts"].append(att)
    rec["reproduced"] = False
    return rec
